"""C13 caches are invisible: histories of read-only calls, compared with the pure model and with fresh processes."""
import json
from harness.runner import PropBase, Case
from harness import gen, core
from props import listsearch as ls
from props.c07 import make_search

class C13(PropBase):
    id = 'C13'
    rule = ('histories (one implementation process each) over a small pool of strings / searches / paths so that calls collide in the caches; '
            'every cached entry point with positional, keyword and default spelling, both path configurations in either first-use order, '
            'cache capacity default and reduced (2-4), several PYTHONHASHSEED values; each answer compared with the pure model and a sample with a '
            'fresh process; non-trivial = a call whose key (function, arguments) occurred earlier in the same history under any spelling')
    partial_note = ('interpreter start-up state beyond module import order is not modelled; fresh-process comparison is sampled')
    def confdir(self, ws):
        return core.make_fs_confdir(ws)
    def cases(self, rng, ctx, tier):
        v = gen.vocab_from_ctx(ctx)
        with_path = set(k for pc in ctx['rawd']['path_configs'] for k, _ in dict((k, vv) for k, vv in pc[1])['templates'])
        from props.c01 import natural
        nruns, nops = (8, 350) if tier == 'quick' else (48, 900)
        ctx['runs'] = {}
        out = []
        cfgs = [pc[0] for pc in ctx['rawd']['path_configs']]
        for r in range(nruns):
            env = {'VERIF_HASHSEED': str(rng.choice([0, 1, 2, 3, 7, 42, 1234, 99999])),
                   'PYTHONHASHSEED': None}
            env['PYTHONHASHSEED'] = env.pop('VERIF_HASHSEED')
            ms = rng.choice([None, None, '2', '3', '4'])
            if ms:
                env['VERIF_MAX_SIZE'] = ms
            rid = 'h%d' % r
            ctx['runs'][rid] = env
            # pool
            pool = []
            for _ in range(6):
                t = v.any_type(rng)
                pool.append(v.sid(t, rng))
            for _ in range(4):
                pool.append(make_search(rng, v, v.any_type(rng)))
            for _ in range(3):
                base = rng.choice(pool[:6]).split('/')
                if len(base) > 1:
                    base[rng.randrange(1, len(base))] = '>'
                    pool.append('/'.join(base))
            if v.alias:
                pool.append('hamlet/a/char/x/model/v001/w/' + ','.join(rng.sample(list(v.alias), min(2, len(v.alias)))))
                pool.append('hamlet/a/char/x/model/v001/w/' + rng.choice(list(v.alias)))
            pool.append(pool[0] + '\n'); pool.append('bla'); pool.append('')
            items = ls.universe(rng, v, size=8)
            first_cfg = rng.choice(cfgs + [''])
            seq = [Case('path', [['s', pool[0]], first_cfg, rng.choice(['pos', 'kw'])], 'history', {'run': rid})]
            # unchanged data for the finders: a small tree made of the concrete Sids of the pool (and a few relatives)
            seq.append(Case('fs_reset', [], 'setup', {'run': rid}))
            ents = []
            for e in pool[:6]:
                n = natural(v, e)
                if n and n[0] in with_path and not any(g in v.alias for g in e.split('/')):
                    ents.append(e)
                    parts = e.split('/')
                    if len(parts) > 3:
                        alt = v.sid(n[0], rng).split('/')
                        ents.append('/'.join(parts[:-2] + alt[-2:]))
            ents = [e for e in ents if natural(v, e) and natural(v, e)[0] in with_path and not any(g in v.alias for g in e.split('/'))]
            for e in ents:
                seq.append(Case('w_create', ['', e, []], 'setup', {'run': rid}))
            fs_searches = []
            for e in ents:
                parts = e.split('/')
                for _ in range(2):
                    q = list(parts)
                    for i in range(1, len(q)):
                        if rng.random() < 0.4:
                            q[i] = '*'
                    fs_searches.append('/'.join(q))
                    fs_searches.append('/'.join(parts[:rng.randint(1, len(parts))] + ['*']))
            fs_searches = fs_searches or ['*']
            paths = []
            for _ in range(nops):
                s = rng.choice(pool)
                k = rng.random()
                m = {'run': rid}
                if k < 0.12:
                    # long-lived Finder instances: a search left partially consumed, then full searches on the same instance,
                    # each followed by the same search on a new instance
                    kind, cfg = rng.choice([('all', ''), ('all', ''), ('paths', rng.choice(cfgs + ['']))])
                    q = rng.choice(fs_searches)
                    r_ = rng.random()
                    if r_ < 0.4:
                        seq.append(Case('pfind', [kind, cfg, q, str(rng.randint(0, 2))], 'history', m))
                    else:
                        seq.append(Case('pfind', [kind, cfg, q, 'all'], 'history', dict(m, pair='p')))
                        seq.append(Case('find_all', [q], 'history', dict(m, pair='f')) if kind == 'all' else Case('find_paths', [cfg, q], 'history', dict(m, pair='f')))
                elif k < 0.2:
                    seq.append(Case('obs', [['s', s]], 'history', m))
                elif k < 0.27:
                    seq.append(Case('sid', [['x', self.sid_tree_for(rng, v, s)]], 'history', m))
                elif k < 0.42:
                    cfg = rng.choice(cfgs + [''])
                    seq.append(Case('path', [['s', s.split('?')[0]], cfg, rng.choice(['pos', 'kw', 'default'])], 'history', m))
                elif k < 0.52:
                    cfg = rng.choice(cfgs + [''])
                    seq.append(Case('pathroundtrip', [['s', rng.choice(pool[:6])], cfg, rng.choice(cfgs + [''])], 'history', m))
                elif k < 0.72:
                    seq.append(Case('unfold', [s, rng.choice('01'), rng.choice('01'), rng.choice(['kw', 'pos', 'default', 'sidarg'])], 'history', m))
                elif k < 0.8:
                    seq.append(Case('match', [['s', rng.choice(pool[:6])], s], 'history', m))
                elif k < 0.9:
                    seq.append(Case('find_list', [items, s], 'history', m))
                elif k < 0.95:
                    seq.append(Case('consume_partial', [items, s, str(rng.randint(0, 2))], 'history', m))
                else:
                    seq.append(Case('sid', [['f', v.fields(v.any_type(rng), rng)]], 'history', m))
            seq.append(Case('fs_reset', [], 'setup', {'run': rid}))
            out.extend(seq)
        return out
    def sid_tree_for(self, rng, v, s):
        # a Sid object argument, possibly with a forced (non natural) type, as in Sid(Sid('shot:hamlet/*'))
        body = s.split('?')[0]
        from props.c01 import natural
        segs = body.split('/')
        cands = [t for t in v.order if len(v.types[t]) == len(segs)]
        for t in rng.sample(cands, len(cands)):
            n = natural(v, body, forced=t)
            if n:
                return [body, n[0], n[1]]
        return [body, '', []]
    def phase2(self, rng, ctx, cases, impl_out, tier):
        # fresh-process sample: the same call, alone
        idx = [i for i, c in enumerate(cases) if c.stream == 'history' and c.op not in ('pfind', 'find_all', 'find_paths')]      # (the tree belongs to the history)
        sample = rng.sample(idx, min(len(idx), 6 if tier == 'quick' else 40))
        more = []
        for j, i in enumerate(sample):
            rid = 'fresh%d' % j
            ctx['runs'][rid] = {}
            more.append(Case(cases[i].op, cases[i].args, 'fresh', {'run': rid, 'of': i}))
        self._hist = (cases, impl_out)
        return more
    def compare(self, case, model, impl):
        return None if model == impl else 'answer after history differs from the pure model'
    def oracle_bulk(self, cases, impl_out, ctx):
        fails = []
        for i, (c, o) in enumerate(zip(cases, impl_out)):
            if c.meta.get('pair') == 'p' and i + 1 < len(cases) and cases[i + 1].meta.get('pair') == 'f' and impl_out[i + 1] != o:
                hist = [x.as_json() for x in cases[:i + 1] if x.meta.get('run') == c.meta.get('run') and x.op in ('pfind', 'w_create')]
                fails.append((c, o, 'the long-lived %s finder answers %r to %r, a new instance answers %r; earlier searches on it: %r' % (
                    c.args[0], o, c.args[2], impl_out[i + 1], [x['args'] for x in hist if x['op'] == 'pfind'][-12:])))
        for c, o in zip(cases, impl_out):
            if c.stream == 'fresh':
                i = c.meta['of']
                if impl_out[i] != o:
                    hist = [x.as_json() for x in cases[:i + 1] if x.meta.get('run') == cases[i].meta.get('run')]
                    fails.append((cases[i], impl_out[i], 'answer after history %r differs from a fresh process %r (history of %d calls, env %r)' % (
                        impl_out[i], o, len(hist), ctx['runs'].get(cases[i].meta.get('run')))))
        return fails
    def search_disagreements(self, ws, ctx, disagreements, cases, impl_out):
        """a history answer differs from the pure model: is it the history (this property) or the call itself?"""
        out = []
        for d in disagreements[:25]:
            c = d['case']
            if c['op'] in ('pfind', 'find_all', 'find_paths', 'w_create', 'fs_reset'):
                continue
            fresh = core.run_impl(ws, [(c['op'], c['args'])])[0]
            if fresh != d['impl']:
                rid = c['meta'].get('run')
                hist = []
                for x, o in zip(cases, impl_out):
                    if x.meta.get('run') == rid:
                        hist.append(x.as_json())
                        if x.op == c['op'] and x.args == c['args'] and o == d['impl']:
                            break
                out.append({'case': c, 'impl': d['impl'],
                            'what': 'after a history of %d calls (env %r) the call answers %r, in a fresh process %r' % (
                                len(hist), ctx['runs'].get(rid), d['impl'], fresh),
                            'history': hist[-60:]})
                break
        return out
    def nontrivial(self, case, impl):
        return [case.op, case.args] if case.stream == 'history' else None
    def impl_kwargs(self, ctx):
        return {'confdir': ctx['confdir']}
    def histogram_key(self, case, impl):
        return case.stream + ':' + case.op

PROP = C13()
