(** C18: version arithmetic of the NextGetter ("v" + 3 digits): formatting, parsing, order, increment. *)
From Coq Require Import List String Ascii Bool Arith Lia.
From Spil Require Import Base.Str Base.Dict Base.Outcome Base.StrProofs Base.SplitProofs Base.PyPath
  Regex.Re Resolva.Template Resolva.Resolver Conf.ConfUtil Conf.Conf Conf.Routing
  Sid.Query Sid.Sid Cache.OrderProofs
  Search.Unfold Search.FindList Search.Finders FS.Fs Data.Data.
Import ListNotations.
Local Open Scope string_scope.

(** * Decimal digits *)

Definition dig (k : nat) : ascii := ascii_of_nat (48 + k).

Lemma dig_code k : k < 10 -> nat_of_ascii (dig k) = 48 + k.
Proof. intros H. unfold dig. apply nat_ascii_embedding. lia. Qed.

Lemma dig_is_digit k : k < 10 -> is_digit (dig k) = true.
Proof.
  intros H. unfold is_digit. rewrite (dig_code k H).
  apply andb_true_iff. split; apply Nat.leb_le; lia.
Qed.

Lemma dig_not_v k : k < 10 -> Ascii.eqb (dig k) "v" = false.
Proof.
  intros H. apply Ascii.eqb_neq. intros E. apply (f_equal nat_of_ascii) in E.
  rewrite (dig_code k H) in E. change (nat_of_ascii "v") with 118 in E. lia.
Qed.

Lemma mod10_lt n : n mod 10 < 10.
Proof. apply Nat.mod_upper_bound. discriminate. Qed.

Lemma div10_lt n : 0 < n -> n / 10 < n.
Proof. intros H. apply Nat.div_lt; lia. Qed.

(** * nat_to_dec_aux: one step *)

Lemma ntd_small f n acc : n < 10 -> nat_to_dec_aux (S f) n acc = String (dig n) acc.
Proof.
  intros H. cbn [nat_to_dec_aux]. destruct (Nat.ltb_spec n 10) as [_|H']; [|lia].
  rewrite (Nat.mod_small n 10 H). reflexivity.
Qed.

Lemma ntd_big f n acc : 10 <= n -> nat_to_dec_aux (S f) n acc = nat_to_dec_aux f (n / 10) (String (dig (n mod 10)) acc).
Proof.
  intros H. cbn [nat_to_dec_aux]. destruct (Nat.ltb_spec n 10) as [H'|_]; [lia|]. reflexivity.
Qed.

Lemma ntd_length_ge : forall f n acc, String.length acc <= String.length (nat_to_dec_aux f n acc).
Proof.
  induction f as [|f IH]; intros n acc; [apply Nat.le_refl|].
  destruct (Nat.lt_ge_cases n 10) as [H|H].
  - rewrite (ntd_small f n acc H). cbn [String.length]. lia.
  - rewrite (ntd_big f n acc H). specialize (IH (n / 10) (String (dig (n mod 10)) acc)). cbn [String.length] in IH. lia.
Qed.

(* at least k+1 digits when 10^k <= n *)
Lemma ntd_length_pow : forall k f n acc, n < f -> 10 ^ k <= n ->
  k + 1 + String.length acc <= String.length (nat_to_dec_aux f n acc).
Proof.
  induction k as [|k IH]; intros f n acc Hf Hn.
  - destruct f as [|f]; [lia|]. destruct (Nat.lt_ge_cases n 10) as [H|H].
    + rewrite (ntd_small f n acc H). cbn [String.length]. lia.
    + rewrite (ntd_big f n acc H).
      pose proof (ntd_length_ge f (n / 10) (String (dig (n mod 10)) acc)) as Hl. cbn [String.length] in Hl. lia.
  - destruct f as [|f]; [lia|].
    assert (H10 : 10 <= n).
    { rewrite Nat.pow_succ_r' in Hn. assert (1 <= 10 ^ k) by (apply Nat.neq_0_lt_0, Nat.pow_nonzero; discriminate). lia. }
    rewrite (ntd_big f n acc H10).
    assert (Hd : n / 10 < f) by (pose proof (div10_lt n); lia).
    assert (Hp : 10 ^ k <= n / 10).
    { apply Nat.div_le_lower_bound; [discriminate|]. rewrite Nat.pow_succ_r' in Hn. exact Hn. }
    pose proof (IH f (n / 10) (String (dig (n mod 10)) acc) Hd Hp) as Hl. cbn [String.length] in Hl. lia.
Qed.

(** * Explicit digits of numbers below 1000 *)

Lemma nat_to_dec_1 n : n < 10 -> nat_to_dec n = String (dig n) "".
Proof. intros H. unfold nat_to_dec. apply ntd_small. exact H. Qed.

Lemma nat_to_dec_2 n : 10 <= n -> n < 100 -> nat_to_dec n = String (dig (n / 10)) (String (dig (n mod 10)) "").
Proof.
  intros H1 H2. unfold nat_to_dec. rewrite (ntd_big n n "" H1).
  assert (Hd : n / 10 < 10) by (apply Nat.div_lt_upper_bound; lia).
  destruct n as [|n]; [lia|]. apply ntd_small. exact Hd.
Qed.

Lemma nat_to_dec_3 n : 100 <= n -> n < 1000 ->
  nat_to_dec n = String (dig (n / 100)) (String (dig (n / 10 mod 10)) (String (dig (n mod 10)) "")).
Proof.
  intros H1 H2. unfold nat_to_dec. rewrite (ntd_big n n ""); [|lia].
  assert (Hd : 10 <= n / 10) by (apply Nat.div_le_lower_bound; lia).
  destruct n as [|n]; [lia|]. rewrite (ntd_big n (S n / 10) _ Hd).
  assert (Hdd : S n / 10 / 10 = S n / 100) by (rewrite Nat.div_div; [reflexivity | discriminate | discriminate]).
  rewrite Hdd.
  assert (Hd2 : S n / 100 < 10) by (apply Nat.div_lt_upper_bound; lia).
  destruct n as [|n]; [lia|]. apply ntd_small. exact Hd2.
Qed.

Lemma fmt_03d_digits n : n < 1000 ->
  fmt_03d n = String (dig (n / 100)) (String (dig (n / 10 mod 10)) (String (dig (n mod 10)) "")).
Proof.
  intros H. unfold fmt_03d, pad_left.
  destruct (Nat.lt_ge_cases n 10) as [H1|H1].
  - rewrite (nat_to_dec_1 n H1). rewrite (Nat.div_small n 100), (Nat.div_small n 10), (Nat.mod_small 0 10), (Nat.mod_small n 10) by lia.
    reflexivity.
  - destruct (Nat.lt_ge_cases n 100) as [H2|H2].
    + rewrite (nat_to_dec_2 n H1 H2). rewrite (Nat.div_small n 100) by lia.
      rewrite (Nat.mod_small (n / 10) 10) by (apply Nat.div_lt_upper_bound; lia). reflexivity.
    + rewrite (nat_to_dec_3 n H2 H). reflexivity.
Qed.

(** * V1 *)

Theorem fmt_03d_length n : n < 1000 -> String.length (fmt_03d n) = 3.
Proof. intros H. rewrite (fmt_03d_digits n H). reflexivity. Qed.

Theorem fmt_03d_length_ge n : 1000 <= n -> 4 <= String.length (fmt_03d n).
Proof.
  intros H. unfold fmt_03d, pad_left. rewrite length_app_s.
  pose proof (ntd_length_pow 3 (S n) n "" (Nat.lt_succ_diag_r n) H) as Hl. change (String.length "") with 0 in Hl.
  unfold nat_to_dec. lia.
Qed.

(* no truncation, no padding above 999 *)
Lemma fmt_03d_big n : 100 <= n -> fmt_03d n = nat_to_dec n.
Proof.
  intros H. unfold fmt_03d, pad_left.
  pose proof (ntd_length_pow 2 (S n) n "" (Nat.lt_succ_diag_r n) H) as Hl. change (String.length "") with 0 in Hl.
  fold (nat_to_dec n) in Hl.
  replace (3 - String.length (nat_to_dec n)) with 0 by lia. reflexivity.
Qed.

(** * V2: int(format(n)) = n *)

Lemma parse_ntd : forall f n acc, n < f ->
  parse_nat_aux (nat_to_dec_aux f n acc) 0 = parse_nat_aux acc n.
Proof.
  induction f as [|f IH]; intros n acc Hf; [lia|].
  destruct (Nat.lt_ge_cases n 10) as [H|H].
  - rewrite (ntd_small f n acc H). cbn [parse_nat_aux]. rewrite (dig_is_digit n H), (dig_code n H).
    f_equal. lia.
  - rewrite (ntd_big f n acc H). rewrite IH by (pose proof (div10_lt n); lia).
    cbn [parse_nat_aux]. rewrite (dig_is_digit _ (mod10_lt n)), (dig_code _ (mod10_lt n)).
    f_equal. pose proof (Nat.div_mod n 10). lia.
Qed.

Lemma parse_zeros : forall k s, parse_nat_aux (repeat_s "0" k ++ s) 0 = parse_nat_aux s 0.
Proof. induction k as [|k IH]; intros s; [reflexivity|]. simpl. apply IH. Qed.

Lemma nat_to_dec_nonempty n : sempty (nat_to_dec n) = false.
Proof.
  unfold nat_to_dec. destruct (Nat.lt_ge_cases n 10) as [H|H].
  - rewrite (ntd_small n n "" H). reflexivity.
  - rewrite (ntd_big n n "" H).
    pose proof (ntd_length_ge n (n / 10) (String (dig (n mod 10)) "")) as Hl. cbn [String.length] in Hl.
    destruct (nat_to_dec_aux n (n / 10) (String (dig (n mod 10)) "")); [cbn [String.length] in Hl; lia | reflexivity].
Qed.

Lemma sempty_app_r a b : sempty b = false -> sempty (a ++ b) = false.
Proof. destruct a; [intros H; exact H | reflexivity]. Qed.

Theorem py_int_nat_to_dec n : py_int (nat_to_dec n) = Some n.
Proof.
  unfold py_int. rewrite nat_to_dec_nonempty. unfold nat_to_dec.
  rewrite (parse_ntd (S n) n "" (Nat.lt_succ_diag_r n)). reflexivity.
Qed.

Theorem py_int_fmt n : py_int (fmt_03d n) = Some n.
Proof.
  unfold py_int, fmt_03d, pad_left. rewrite (sempty_app_r _ _ (nat_to_dec_nonempty n)).
  rewrite parse_zeros. unfold nat_to_dec.
  rewrite (parse_ntd (S n) n "" (Nat.lt_succ_diag_r n)). reflexivity.
Qed.

Corollary fmt_03d_injective n m : fmt_03d n = fmt_03d m -> n = m.
Proof.
  intros H. pose proof (py_int_fmt n) as Hn. rewrite H, py_int_fmt in Hn. inversion Hn. reflexivity.
Qed.

(** * V3: string order = numeric order on 3-digit versions *)

Lemma ltb_shift k a b : Nat.ltb (k + a) (k + b) = Nat.ltb a b.
Proof. destruct (Nat.ltb_spec (k + a) (k + b)), (Nat.ltb_spec a b); solve [reflexivity | lia]. Qed.

Lemma str_ltb_dig a b s t : a < 10 -> b < 10 ->
  str_ltb (String (dig a) s) (String (dig b) t) =
  if Nat.ltb a b then true else if Nat.ltb b a then false else str_ltb s t.
Proof.
  intros Ha Hb. cbn [str_ltb]. rewrite (dig_code a Ha), (dig_code b Hb), !ltb_shift. reflexivity.
Qed.

Theorem fmt_03d_monotone n m : n < m -> m < 1000 -> str_ltb (fmt_03d n) (fmt_03d m) = true.
Proof.
  intros Hnm Hm. rewrite (fmt_03d_digits n), (fmt_03d_digits m) by lia.
  assert (Ha : n / 100 < 10) by (apply Nat.div_lt_upper_bound; lia).
  assert (Ha' : m / 100 < 10) by (apply Nat.div_lt_upper_bound; lia).
  pose proof (mod10_lt (n / 10)) as Hb. pose proof (mod10_lt (m / 10)) as Hb'.
  pose proof (mod10_lt n) as Hc. pose proof (mod10_lt m) as Hc'.
  rewrite !str_ltb_dig by assumption.
  pose proof (Nat.div_mod n 10) as E1. pose proof (Nat.div_mod m 10) as E1'.
  pose proof (Nat.div_mod (n / 10) 10) as E2. pose proof (Nat.div_mod (m / 10) 10) as E2'.
  rewrite Nat.div_div in E2, E2' by discriminate. change (10 * 10) with 100 in E2, E2'.
  destruct (Nat.ltb_spec (n / 100) (m / 100)); [reflexivity|].
  destruct (Nat.ltb_spec (m / 100) (n / 100)); [lia|].
  destruct (Nat.ltb_spec (n / 10 mod 10) (m / 10 mod 10)); [reflexivity|].
  destruct (Nat.ltb_spec (m / 10 mod 10) (n / 10 mod 10)); [lia|].
  destruct (Nat.ltb_spec (n mod 10) (m mod 10)); [reflexivity|]. lia.
Qed.

Definition vname (n : nat) : string := "v" ++ fmt_03d n.

Corollary vname_monotone n m : n < m -> m < 1000 -> str_ltb (vname n) (vname m) = true.
Proof.
  intros Hnm Hm. unfold vname. cbn [append str_ltb]. rewrite Nat.ltb_irrefl. apply fmt_03d_monotone; assumption.
Qed.

Corollary vname_distinct n m : n <> m -> vname n <> vname m.
Proof. unfold vname. intros Hne E. inversion E as [E']. apply Hne. apply fmt_03d_injective. exact E'. Qed.

(* the successor version sorts strictly after the current one (below the 3-digit limit) *)
Corollary vname_succ_greater n : S n < 1000 -> str_ltb (vname n) (vname (S n)) = true.
Proof. intros H. apply vname_monotone; lia. Qed.

(** * Digits contain no "v" *)

Lemma ntd_no_v : forall f n acc, mem_c "v" (nat_to_dec_aux f n acc) = mem_c "v" acc.
Proof.
  induction f as [|f IH]; intros n acc; [reflexivity|].
  destruct (Nat.lt_ge_cases n 10) as [H|H].
  - rewrite (ntd_small f n acc H). cbn [mem_c]. rewrite (dig_not_v n H). reflexivity.
  - rewrite (ntd_big f n acc H), IH. cbn [mem_c]. rewrite (dig_not_v _ (mod10_lt n)). reflexivity.
Qed.

Lemma zeros_no_v k : mem_c "v" (repeat_s "0" k) = false.
Proof. induction k as [|k IH]; [reflexivity|]. simpl. exact IH. Qed.

Lemma fmt_03d_no_v n : mem_c "v" (fmt_03d n) = false.
Proof.
  unfold fmt_03d, pad_left. rewrite mem_c_app, zeros_no_v. unfold nat_to_dec. rewrite ntd_no_v. reflexivity.
Qed.

Lemma last_v_part_vname n : last_v_part ("v" ++ fmt_03d n) = fmt_03d n.
Proof.
  unfold last_v_part. change ("v" ++ fmt_03d n) with (String "v" (fmt_03d n)).
  cbn [split_c]. rewrite Ascii.eqb_refl. rewrite (split_c_nomem _ _ (fmt_03d_no_v n)). reflexivity.
Qed.

(** * V4 / V5: next_version *)

Section Next.
Variable Ld : Loaded.
Variable Rt : Routing.
Variable F : fs.

Definition request_version (x : sid) (n : nat) : outcome sid :=
  do r <- get_with_kw Ld x [("version", Some ("v" ++ fmt_03d n))];
  Ok (if sid_bool r then r else empty_sid).

(** V4 *)
Theorem next_version_concrete x0 x n :
  sid_factory Ld (FromSid x0) = Ok x ->
  sid_get x "version" = Some ("v" ++ fmt_03d n) ->
  next_version Ld Rt F x0 = request_version x (S n).
Proof.
  intros Hx Hv. unfold next_version, request_version. rewrite Hx. cbn [bind]. rewrite Hv.
  change ("v" ++ fmt_03d n) with (String "v" (fmt_03d n)).
  change (truthy (String "v" (fmt_03d n))) with true. cbv iota.
  change (String.eqb (String "v" (fmt_03d n)) "*") with false.
  change (String.eqb (String "v" (fmt_03d n)) ">") with false.
  cbn [orb bind]. change (String "v" (fmt_03d n)) with ("v" ++ fmt_03d n).
  rewrite last_v_part_vname, py_int_fmt. reflexivity.
Qed.

(** V5 *)
Theorem next_version_first x0 x :
  sid_factory Ld (FromSid x0) = Ok x ->
  sid_get x "version" = None ->
  next_version Ld Rt F x0 = request_version x 1 /\ "v" ++ fmt_03d 1 = "v001".
Proof.
  intros Hx Hv. split; [|reflexivity]. unfold next_version, request_version. rewrite Hx. cbn [bind]. rewrite Hv.
  cbn [bind]. reflexivity.
Qed.

(* an empty version field behaves like no version *)
Lemma next_version_empty x0 x :
  sid_factory Ld (FromSid x0) = Ok x ->
  sid_get x "version" = Some "" ->
  next_version Ld Rt F x0 = request_version x 1.
Proof.
  intros Hx Hv. unfold next_version, request_version. rewrite Hx. cbn [bind]. rewrite Hv. reflexivity.
Qed.

(* the result, when it is a Sid, is the get_with of x: never raises ValueError on a well-formed version *)
Corollary next_version_result x0 x n r :
  sid_factory Ld (FromSid x0) = Ok x ->
  sid_get x "version" = Some ("v" ++ fmt_03d n) ->
  next_version Ld Rt F x0 = Ok r ->
  exists r', get_with_kw Ld x [("version", Some ("v" ++ fmt_03d (S n)))] = Ok r' /\
             r = (if sid_bool r' then r' else empty_sid).
Proof.
  intros Hx Hv H. rewrite (next_version_concrete x0 x n Hx Hv) in H. unfold request_version in H.
  destruct (get_with_kw Ld x _) as [r'|e]; cbn [bind] in H; [|discriminate].
  inversion H. exists r'. split; reflexivity.
Qed.

(* get_next routes to next_version *)
Corollary get_next_concrete x0 x n :
  getter_for Rt (s_type x0) true = GNext ->
  sid_factory Ld (FromSid x0) = Ok x ->
  sid_get x "version" = Some ("v" ++ fmt_03d n) ->
  get_next Ld Rt F x0 "version" = request_version x (S n).
Proof.
  intros Hg Hx Hv. unfold get_next. rewrite Hg. cbn [String.eqb Ascii.eqb Bool.eqb negb].
  apply (next_version_concrete x0 x n Hx Hv).
Qed.

End Next.
