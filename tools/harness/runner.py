"""Generic check flow (DESIGN.md 3.5 / 9): obligations -> correspondence -> oracle search -> verdict."""
import os, sys, time, json, random, traceback
from . import core
from .core import CheckFailure

class Case:
    __slots__ = ('op', 'args', 'stream', 'meta')
    def __init__(self, op, args, stream='structured', meta=None):
        self.op = op; self.args = args; self.stream = stream; self.meta = meta or {}
    def as_json(self):
        return {'op': self.op, 'args': self.args, 'stream': self.stream, 'meta': self.meta}

def load_corpus(prop_id):
    p = os.path.join(core.VERIF, 'corpus', prop_id + '.jsonl')
    out = []
    if os.path.exists(p):
        for line in open(p):
            line = line.strip()
            if line and not line.startswith('#'):
                d = json.loads(line)
                out.append(Case(d['op'], d['args'], 'corpus', d.get('meta')))
    return out

def run_check(prop, tier, seed, replay=None):
    t0 = time.time()
    ws = core.Workspace(prop.id)
    rng = random.Random(seed * 1000003 + sum(ord(ch) for ch in prop.id))
    broken = []          # obligations / correspondence that no longer check
    obligations = []     # (name, ok)
    failing = []         # concrete failing inputs (oracle)
    known_hits = {}
    coverage = {}
    exit_code = 0
    try:
        # 1. configuration -> generated instance file (proof obligations re-checked against today's source)
        ctx = {}
        raw = None
        try:
            confdir = prop.confdir(ws)
            ctx['confdir'] = confdir
            raw, loaded = core.extract_conf(ws, confdir)
            ctx['raw'] = raw
            ctx['rawd'] = dict((k, v) for k, v in raw)
            ctx['loaded_templates'] = list(loaded.values())[0][0]
            ctx['loaded'] = list(loaded.values())[0]
            gen_dir = None
            try:
                gen_dir = core.write_gen(ws, raw, loaded)
                for n in ('conf_parses', 'conf_loads', 'the_loaded_eq', 'load_agrees', 'conf_wf'):
                    obligations.append((n, True))
            except CheckFailure as e:
                name = core.failing_gen_lemma(e.detail, open(ws.path('gen', 'Hamlet.v')).read()) if os.path.exists(ws.path('gen', 'Hamlet.v')) else None
                broken.append({'kind': e.what, 'obligation': name or e.what, 'detail': e.detail[-1500:]})
                obligations.append((name or e.what, False))
        except CheckFailure as e:
            broken.append({'kind': e.what, 'obligation': e.what, 'detail': e.detail[-1500:]})
            obligations.append((e.what, False))
        # 2. property theorems
        props_info = None
        if gen_dir is None:
            # theorems that do not need the instance can still be checked against an empty gen dir
            pass
        if gen_dir is not None:
            # further generated files this property's theorems are stated about (translated from the source on every run)
            for name, ok, detail in prop.pre_props(ws, ctx, gen_dir):
                obligations.append((name, ok))
                if not ok:
                    broken.append({'kind': 'gen-obligation', 'obligation': name, 'detail': detail[-1500:]})
        try:
            if gen_dir is not None:
                props_info = core.check_props(ws, prop.id, gen_dir)
                for th in props_info['theorems']:
                    obligations.append((th, True))
                obligations.append(('print_assumptions', True))
        except CheckFailure as e:
            broken.append({'kind': e.what, 'obligation': 'props/%s.v' % prop.id, 'detail': e.detail[-1500:]})
            obligations.append(('props/%s.v' % prop.id, False))
        bad = core.scan_forbidden()
        obligations.append(('no-forbidden-vernacular', not bad))
        if bad:
            broken.append({'kind': 'forbidden-vernacular', 'obligation': 'grep', 'detail': str(bad)})
        # 3. correspondence: corpus first, then generated streams
        custom = getattr(prop, 'custom', None)
        if custom is not None and not replay:
            cres = custom(ws, rng, tier, seed, ctx)
            for n, ok in cres['obligations']:
                obligations.append((n, ok))
            broken.extend(cres['broken'])
            failing.extend(cres['failing'])
            coverage = {
                'obligations': len(obligations), 'discharged': sum(1 for _, ok in obligations if ok),
                'obligation_names': [n for n, _ in obligations],
                'checker_cmd': 'coqc (Coq 8.16.1) on work/<run>/gen/*.v and coq/props/%s.v against coq/theories; Print Assumptions parsed' % prop.id,
                'trusted_base': prop.trusted_base(), 'axioms': (props_info or {}).get('axioms', []),
                'evaluations': cres['evaluations'], 'distinct_nontrivial': cres['distinct'], 'rule': prop.rule,
                'samples': cres['samples'], 'input_histogram': cres['hist'], 'disagreements_checked': cres['disagreements'],
                'oracle_failures': len(cres['failing']), 'members': cres['members'], 'model_partial': prop.partial_note,
            }
            if failing:
                path = core.write_replay(prop.id, {'property': prop.id, 'kind': 'failing-input', 'cases': [failing[0]['case']], 'impl': failing[0]['impl'],
                                                   'what': failing[0]['what'], 'seed': seed, 'member': failing[0].get('member'), 'broken': broken[:3]})
                print('VIOLATION property=%s replay=%s' % (prop.id, path))
                exit_code = 1
            elif broken:
                first = broken[0]
                path = core.write_replay(prop.id, {'property': prop.id, 'kind': 'no-longer-checks', 'obligation': first['obligation'], 'detail': first['detail'],
                                                   'cases': first.get('cases', []), 'seed': seed, 'all_broken': [b['obligation'] for b in broken]})
                print('VIOLATION property=%s replay=%s no-failing-input-found' % (prop.id, path))
                exit_code = 1
            for e in core.known_findings(prop.id):
                print('KNOWN-FINDING: property=%s %s' % (prop.id, e['what']))
            core.write_evidence(prop.id, tier, seed, coverage, prop.assumptions(), time.time() - t0, len(failing) + (1 if broken and not failing else 0))
            return exit_code
        if replay:
            d = json.load(open(replay))
            cases = [Case(c['op'], c['args'], 'replay', c.get('meta')) for c in d.get('cases', [])]
        else:
            cases = load_corpus(prop.id) + prop.cases(rng, ctx, tier)
        reqs = [(c.op, c.args) for c in cases]
        model_out = None
        try:
            model_out = core.run_model(ws, raw, reqs)
        except CheckFailure as e:
            broken.append({'kind': e.what, 'obligation': 'model-run', 'detail': e.detail[-1500:]})
        ctx['ws'] = ws
        impl_out = prop.run_impl(ws, cases, ctx)
        # second phase: cases derived from the implementation's first-phase observations
        if not replay:
            more = prop.phase2(rng, ctx, cases, impl_out, tier)
            if more:
                mreqs = [(c.op, c.args) for c in more]
                if model_out is not None:
                    try:
                        model_out = model_out + core.run_model(ws, raw, mreqs)
                    except CheckFailure as e:
                        broken.append({'kind': e.what, 'obligation': 'model-run', 'detail': e.detail[-1500:]})
                        model_out = None
                impl_out = impl_out + prop.run_impl(ws, more, ctx)
                cases = cases + more
        if os.environ.get('VERIF_DUMP'):
            # debugging aid: everything that was asked and answered, as json lines
            with open(os.environ['VERIF_DUMP'], 'w') as fdump:
                for i, c in enumerate(cases):
                    fdump.write(json.dumps({'case': c.as_json(), 'impl': impl_out[i], 'model': model_out[i] if model_out is not None else None}) + '\n')
        disagreements = []
        unmodelled = 0
        distinct = set()
        hist = {}
        for i, c in enumerate(cases):
            it = impl_out[i]
            key = prop.nontrivial(c, it)
            if key is not None:
                distinct.add(json.dumps(key, sort_keys=True))
            h = prop.histogram_key(c, it)
            hist[h] = hist.get(h, 0) + 1
            if model_out is not None:
                mt = model_out[i]
                if core.is_unmodelled(mt):
                    unmodelled += 1
                else:
                    d = prop.compare(c, mt, it)
                    if d is not None:
                        disagreements.append({'case': c.as_json(), 'model': mt, 'impl': it, 'what': d})
            # oracle on the implementation's observation (direct statement of the property)
            f = prop.oracle(c, it, ctx)
            if c.op == 'seq' and 'expect' in c.meta and it != c.meta['expect']:
                f = 'history %r answers %r, expected %r (%s)' % (c.args, it, c.meta['expect'], c.meta.get('note', ''))
            if f is not None:
                cls = prop.classify(c, it, f)
                if cls is not None:
                    known_hits.setdefault(cls, []).append(c.as_json())
                else:
                    failing.append({'case': c.as_json(), 'impl': it, 'what': f})
        for (bc, bo, bf) in prop.oracle_bulk(cases, impl_out, ctx):
            cls = prop.classify(bc, bo, bf)
            if cls is not None:
                known_hits.setdefault(cls, []).append(bc.as_json())
            else:
                failing.append({'case': bc.as_json(), 'impl': bo, 'what': bf})
        if disagreements:
            broken.append({'kind': 'correspondence', 'obligation': 'correspondence:' + prop.id,
                           'detail': json.dumps(disagreements[0])[:3000], 'count': len(disagreements)})
        # 4. when something broke and no failing input is known yet: search harder on the implementation
        searched = 0
        if disagreements and not failing and not replay:
            for f in prop.search_disagreements(ws, ctx, disagreements, cases, impl_out):
                failing.append(f)
        if broken and not failing and not replay:
            extra = prop.search_cases(rng, ctx, tier)
            if extra:
                ereqs = [(c.op, c.args) for c in extra]
                eout = core.run_impl(ws, ereqs, **prop.impl_kwargs(ctx))
                searched = len(extra)
                for c, it in zip(extra, eout):
                    f = prop.oracle(c, it, ctx)
                    if f is not None and prop.classify(c, it, f) is None:
                        failing.append({'case': c.as_json(), 'impl': it, 'what': f})
                        break
        # known findings: replay each witness; print only those that still fail
        for e in core.known_findings(prop.id):
            w = e.get('witness')
            still = True
            if w:
                wc = Case(w['op'], w['args'], 'finding')
                wout = core.run_impl(ws, [(wc.op, wc.args)], **prop.impl_kwargs(ctx))[0]
                still = prop.oracle(wc, wout, ctx) is not None
            if still:
                print('KNOWN-FINDING: property=%s %s' % (prop.id, e['what']))
        coverage = {
            'obligations': len(obligations),
            'discharged': sum(1 for _, ok in obligations if ok),
            'obligation_names': [n for n, _ in obligations],
            'checker_cmd': 'coqc (Coq 8.16.1) on work/<run>/gen/Hamlet.v and coq/props/%s.v against coq/theories (built by setup_cmd with make); Print Assumptions parsed' % prop.id,
            'trusted_base': prop.trusted_base(),
            'axioms': (props_info or {}).get('axioms', []),
            'evaluations': len(cases),
            'distinct_nontrivial': len(distinct),
            'rule': prop.rule,
            'samples': [c.as_json() for c in cases[:3]] + [c.as_json() for c in cases[-3:]],
            'input_histogram': dict(sorted(hist.items(), key=lambda kv: -kv[1])[:40]),
            'streams': {s: sum(1 for c in cases if c.stream == s) for s in sorted(set(c.stream for c in cases))},
            'unmodelled_skipped': unmodelled,
            'disagreements_checked': len(disagreements),
            'oracle_failures': len(failing),
            'known_finding_hits': {k: len(v) for k, v in known_hits.items()},
            'search_cases': searched,
            'model_partial': prop.partial_note,
        }
        if failing:
            path = core.write_replay(prop.id, {'property': prop.id, 'kind': 'failing-input', 'cases': [failing[0]['case']],
                                               'impl': failing[0]['impl'], 'what': failing[0]['what'], 'seed': seed, 'history': failing[0].get('history'),
                                               'broken': broken[:3]})
            print('VIOLATION property=%s replay=%s' % (prop.id, path))
            exit_code = 1
        elif broken:
            first = broken[0]
            cases_payload = []
            if first['kind'] == 'correspondence':
                cases_payload = [disagreements[0]['case']]
            path = core.write_replay(prop.id, {'property': prop.id, 'kind': 'no-longer-checks', 'obligation': first['obligation'],
                                               'detail': first['detail'], 'cases': cases_payload, 'seed': seed, 'all_broken': [b['obligation'] for b in broken]})
            print('VIOLATION property=%s replay=%s no-failing-input-found' % (prop.id, path))
            exit_code = 1
        if not replay:      # a replay re-runs one recorded input: it is not a record of what the check covers
            core.write_evidence(prop.id, tier, seed, coverage, prop.assumptions(), time.time() - t0, len(failing) + (1 if broken and not failing else 0))
    finally:
        ws.cleanup()
    return exit_code

class PropBase:
    id = None
    rule = ''
    partial_note = ''
    def confdir(self, ws):
        return core.DEFAULT_CONFDIR
    def impl_kwargs(self, ctx):
        return {'confdir': ctx.get('confdir', core.DEFAULT_CONFDIR)}
    def pre_props(self, ws, ctx, gen_dir):
        return []
    def cases(self, rng, ctx, tier):
        return []
    def run_impl(self, ws, cases, ctx):
        """default: all cases in one implementation process, in order; cases carrying meta['run'] are grouped into
        separate processes (one per run id) with the environment given in ctx['runs'][id]"""
        runs = {}
        order = []
        for i, c in enumerate(cases):
            r = c.meta.get('run') if isinstance(c.meta, dict) else None
            if r not in runs:
                runs[r] = []; order.append(r)
            runs[r].append(i)
        out = [None] * len(cases)
        for r in order:
            idx = runs[r]
            kw = dict(self.impl_kwargs(ctx))
            if r is not None:
                kw['extra_env'] = dict(kw.get('extra_env') or {}, **ctx.get('runs', {}).get(r, {}))
            res = core.run_impl(ws, [(cases[i].op, cases[i].args) for i in idx], **kw)
            for i, x in zip(idx, res):
                out[i] = x
        return out
    def phase2(self, rng, ctx, cases, impl_out, tier):
        return []
    def search_cases(self, rng, ctx, tier):
        r2 = __import__('random').Random(rng.random())
        return self.cases(r2, ctx, 'thorough' if tier == 'quick' else tier)
    def compare(self, case, model, impl):
        return None if model == impl else 'model and implementation differ'
    def oracle(self, case, impl, ctx):
        return None
    def oracle_bulk(self, cases, impl_out, ctx):
        return []
    def search_disagreements(self, ws, ctx, disagreements, cases, impl_out):
        return []
    def classify(self, case, impl, failure):
        return None
    def nontrivial(self, case, impl):
        return [case.op, case.args]
    def histogram_key(self, case, impl):
        return case.stream + ':' + case.op
    def trusted_base(self):
        return ['Coq 8.16.1 kernel + vm_compute', 'hand-written model coq/theories (tied by correspondence)',
                'tools/extract_conf.py (configuration translator)', 'extraction ExtrOcamlBasic+ExtrOcamlString, ocaml/driver.ml',
                'harness generators/oracles (tools/)', 'CPython re/str/dict/pathlib/urllib semantics as modelled (DESIGN.md 8)']
    def assumptions(self):
        return ['code points <= 255', 'see DESIGN.md section 8 (trusted base)']
