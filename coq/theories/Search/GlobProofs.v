(** C08: glob2re agrees with an independent specification of glob matching. *)
From Coq Require Import List String Ascii Bool Arith Lia.
From Spil Require Import Base.Str Base.StrProofs Base.SplitProofs Base.Outcome Regex.Re Regex.MatchProofs
  Sid.SidLemmas Search.FindList.
Import ListNotations.
Local Open Scope string_scope.

(* '*' matches any run of characters except '/', '?' one character except '/',
   every other character matches itself *)
Inductive glob_rel : string -> string -> Prop :=
| g_nil : glob_rel "" ""
| g_star_skip p e : glob_rel p e -> glob_rel (String "*" p) e
| g_star_take p a e : a <> "/"%char -> glob_rel (String "*" p) e -> glob_rel (String "*" p) (String a e)
| g_quest p a e : a <> "/"%char -> glob_rel p e -> glob_rel (String "?" p) (String a e)
| g_char p a e : a <> "*"%char -> a <> "?"%char -> glob_rel p e -> glob_rel (String a p) (String a e).

Definition matchesX (r : re) (e : string) : Prop := exists c, Matches r e c.

Lemma seq_of_cons x t e :
  matchesX (seq_of (x :: t)) e <->
  exists w1 w2, e = w1 ++ w2 /\ matchesX x w1 /\ matchesX (seq_of t) w2.
Proof.
  unfold matchesX. destruct t as [|y t].
  - cbn [seq_of]. split.
    + intros (c & M). exists e, "". rewrite app_nil_r_s. repeat split; eauto. exists []. constructor.
    + intros (w1 & w2 & -> & (c1 & M1) & (c2 & M2)). inversion M2; subst. rewrite app_nil_r_s. eauto.
  - change (seq_of (x :: y :: t)) with (Seq x (seq_of (y :: t))). split.
    + intros (c & M). inversion M; subst. eauto 10.
    + intros (w1 & w2 & -> & (c1 & M1) & (c2 & M2)). eexists. constructor; eauto.
Qed.

Lemma not_slash_iff a : in_cls CNotSlash a = true <-> a <> "/"%char.
Proof.
  simpl. destruct (Ascii.eqb a "/") eqn:E.
  - apply Ascii.eqb_eq in E. split; [discriminate | congruence].
  - apply Ascii.eqb_neq in E. split; auto.
Qed.

Lemma star_glob p w1 : all_cls CNotSlash w1 -> forall w2, glob_rel p w2 ->
  glob_rel (String "*" p) (w1 ++ w2).
Proof.
  induction 1 as [|a w Ha Hw IH]; intros w2 H2; simpl.
  - apply g_star_skip; exact H2.
  - apply g_star_take; [apply not_slash_iff; exact Ha | apply IH; exact H2].
Qed.

Lemma glob_star_inv p e : glob_rel (String "*" p) e ->
  exists w1 w2, e = w1 ++ w2 /\ all_cls CNotSlash w1 /\ glob_rel p w2.
Proof.
  intros H. remember (String "*" p) as q eqn:Eq. revert p Eq.
  induction H as [| p' e H IH | p' a e Ha H IH | p' a e Ha H IH | p' a e Ha1 Ha2 H IH]; intros p Eq;
    inversion Eq; subst.
  - exists "", e. repeat split; [constructor | exact H].
  - destruct (IH p eq_refl) as (w1 & w2 & -> & Hw1 & Hw2).
    exists (String a w1), w2. repeat split; auto. constructor; [apply not_slash_iff; exact Ha | exact Hw1].
  - congruence.
Qed.

Lemma glob2re_items_spec : forall pat l e, glob2re_items pat = Some l ->
  (matchesX (seq_of l) e <-> glob_rel pat e).
Proof.
  induction pat as [|a rest IH]; intros l e H; simpl in H.
  - inversion H; subst. simpl. unfold matchesX. split.
    + intros (c & M). inversion M; subst. constructor.
    + intros G. inversion G; subst. exists []. constructor.
  - destruct (Ascii.eqb a "[" && opens_class rest); [discriminate|].
    destruct (glob2re_items rest) as [l'|] eqn:El; [|discriminate].
    inversion H; subst l. clear H. rewrite seq_of_cons.
    destruct (Ascii.eqb a "*") eqn:Es.
    { apply Ascii.eqb_eq in Es. subst a. split.
      - intros (w1 & w2 & -> & (c1 & M1) & M2). apply Matches_Star_inv in M1. destruct M1 as (M1 & _).
        apply star_glob; [exact M1|]. apply (IH l' w2 eq_refl). exact M2.
      - intros G. apply glob_star_inv in G. destruct G as (w1 & w2 & -> & Hw1 & Hw2).
        exists w1, w2. repeat split.
        + exists []. constructor. exact Hw1.
        + apply (IH l' w2 eq_refl). exact Hw2. }
    destruct (Ascii.eqb a "?") eqn:Eq.
    { apply Ascii.eqb_eq in Eq. subst a. split.
      - intros (w1 & w2 & -> & (c1 & M1) & M2). inversion M1; subst. simpl.
        apply g_quest; [apply not_slash_iff; assumption|]. apply (IH l' w2 eq_refl). exact M2.
      - intros G. inversion G; subst.
        + exists (String a ""), e0. repeat split.
          * exists []. constructor. apply not_slash_iff. assumption.
          * apply (IH l' e0 eq_refl). assumption.
        + congruence. }
    apply Ascii.eqb_neq in Es. apply Ascii.eqb_neq in Eq. split.
    + intros (w1 & w2 & -> & (c1 & M1) & M2). inversion M1; subst. simpl.
      apply g_char; auto. apply (IH l' w2 eq_refl). exact M2.
    + intros G. inversion G; subst; try congruence.
      exists (String a ""), e0. repeat split.
      * exists []. constructor.
      * apply (IH l' e0 eq_refl). assumption.
Qed.

(** G1 *)
Theorem glob2re_spec : forall pat r e, glob2re pat = Some r ->
  (match_full r e = true <-> glob_rel pat e).
Proof.
  intros pat r e H. unfold glob2re in H.
  destruct (glob2re_items pat) as [l|] eqn:El; [|discriminate]. simpl in H. inversion H; subst r.
  rewrite match_full_iff. exact (glob2re_items_spec pat l e El).
Qed.

(* glob2re fails exactly when a "[...]" class is formed *)
Fixpoint has_class (pat : string) : bool :=
  match pat with
  | "" => false
  | String a rest => (Ascii.eqb a "[" && opens_class rest) || has_class rest
  end.

Lemma glob2re_none_iff pat : glob2re pat = None <-> has_class pat = true.
Proof.
  unfold glob2re. induction pat as [|a rest IH]; simpl.
  - split; discriminate.
  - destruct (Ascii.eqb a "[" && opens_class rest); simpl.
    + split; reflexivity.
    + destruct (glob2re_items rest); simpl in *.
      * split; [discriminate|]. intros H. apply IH in H. discriminate.
      * split; [intros _; apply IH; reflexivity | reflexivity].
Qed.

(* specification-level corollary for the matcher *)
Lemma glob_match_spec pat e b : glob_match pat e = Ok b -> (b = true <-> glob_rel pat e).
Proof.
  unfold glob_match. destruct (glob2re pat) as [r|] eqn:E; [|discriminate].
  intros H. inversion H; subst. apply glob2re_spec. exact E.
Qed.

(** * G2: segments *)

Lemma neq_eqb_false (a b : ascii) : a <> b -> Ascii.eqb a b = false.
Proof. intros H. apply Ascii.eqb_neq. exact H. Qed.

Lemma glob_count_slash pat e : glob_rel pat e -> count_c "/" pat = count_c "/" e.
Proof.
  induction 1 as [| p e H IH | p a e Ha H IH | p a e Ha H IH | p a e Ha1 Ha2 H IH]; cbn [count_c] in *.
  - reflexivity.
  - exact IH.
  - rewrite (neq_eqb_false _ _ Ha). exact IH.
  - rewrite (neq_eqb_false _ _ Ha). change (Ascii.eqb "?" "/") with false. simpl. exact IH.
  - rewrite IH. reflexivity.
Qed.

(** G2, first part: the number of segments agrees (no guard on "?" is needed) *)
Theorem glob_segments pat e : glob_rel pat e ->
  List.length (split_c "/" pat) = List.length (split_c "/" e).
Proof.
  intros H. rewrite !Spil.Sid.SidLemmas.count_split. f_equal. apply glob_count_slash. exact H.
Qed.

Lemma mem_count_0 c s : mem_c c s = false -> count_c c s = 0.
Proof.
  induction s as [|a s IH]; simpl; intros H; [reflexivity|].
  apply orb_false_iff in H. destruct H as (Ha & Hs). rewrite Ha. simpl. apply IH. exact Hs.
Qed.

Lemma glob_noslash pat e : glob_rel pat e -> mem_c "/" pat = false -> mem_c "/" e = false.
Proof.
  intros H Hm. apply Spil.Sid.SidLemmas.count_c_0. rewrite <- (glob_count_slash _ _ H). apply mem_count_0. exact Hm.
Qed.

Lemma glob_app p1 e1 p2 e2 : glob_rel p1 e1 -> glob_rel p2 e2 -> glob_rel (p1 ++ p2) (e1 ++ e2).
Proof.
  intros H1 H2. induction H1 as [| p e H IH | p a e Ha H IH | p a e Ha H IH | p a e Ha1 Ha2 H IH]; simpl.
  - exact H2.
  - apply g_star_skip. exact IH.
  - apply g_star_take; [exact Ha | exact IH].
  - apply g_quest; [exact Ha | exact IH].
  - apply g_char; [exact Ha1 | exact Ha2 | exact IH].
Qed.

Lemma glob_split_at_slash tl : forall pat e, glob_rel pat e ->
  forall h, pat = h ++ String "/" tl -> mem_c "/" h = false ->
  exists e1 e2, e = e1 ++ String "/" e2 /\ glob_rel h e1 /\ glob_rel tl e2 /\ mem_c "/" e1 = false.
Proof.
  induction 1 as [| p e H IH | p a e Ha H IH | p a e Ha H IH | p a e Ha1 Ha2 H IH]; intros h Eq Hm.
  - destruct h; discriminate.
  - destruct h as [|b h']; [discriminate|]. simpl in Eq. inversion Eq; subst b p.
    cbn [mem_c] in Hm. apply orb_false_iff in Hm. destruct Hm as (_ & Hm).
    destruct (IH h' eq_refl Hm) as (e1 & e2 & -> & G1 & G2 & M).
    exists e1, e2. repeat split; auto. apply g_star_skip. exact G1.
  - destruct (IH h Eq Hm) as (e1 & e2 & -> & G1 & G2 & M).
    exists (String a e1), e2. repeat split; auto.
    + destruct h as [|b h']; [discriminate|]. simpl in Eq. inversion Eq; subst b.
      apply g_star_take; [exact Ha | exact G1].
    + cbn [mem_c]. rewrite (neq_eqb_false _ _ Ha), M. reflexivity.
  - destruct h as [|b h']; [discriminate|]. simpl in Eq. inversion Eq; subst b p.
    cbn [mem_c] in Hm. apply orb_false_iff in Hm. destruct Hm as (_ & Hm).
    destruct (IH h' eq_refl Hm) as (e1 & e2 & -> & G1 & G2 & M).
    exists (String a e1), e2. repeat split; auto.
    + apply g_quest; [exact Ha | exact G1].
    + cbn [mem_c]. rewrite (neq_eqb_false _ _ Ha), M. reflexivity.
  - destruct h as [|b h'].
    + simpl in Eq. inversion Eq; subst a p. exists "", e. repeat split; auto. constructor.
    + simpl in Eq. inversion Eq; subst b p.
      cbn [mem_c] in Hm. apply orb_false_iff in Hm. destruct Hm as (Hb & Hm).
      destruct (IH h' eq_refl Hm) as (e1 & e2 & -> & G1 & G2 & M).
      exists (String a e1), e2. repeat split; auto.
      * apply g_char; [exact Ha1 | exact Ha2 | exact G1].
      * cbn [mem_c]. rewrite Hb, M. reflexivity.
Qed.

Lemma glob_join_segments : forall lp, lp <> [] -> Forall (fun x => mem_c "/" x = false) lp ->
  forall e, glob_rel (join "/" lp) e <-> Forall2 glob_rel lp (split_c "/" e).
Proof.
  induction lp as [|x lp IH]; intros Hne Hall e; [congruence|].
  inversion Hall as [|? ? Hx Hl]; subst. destruct lp as [|y lp].
  - cbn [join]. split.
    + intros G. rewrite (split_c_nomem "/" e (glob_noslash _ _ G Hx)). constructor; [exact G | constructor].
    + intros F. inversion F as [|? g ? rest Hg Hrest E1 E2]; subst. inversion Hrest; subst.
      symmetry in E2. apply split_c_single in E2. subst g. exact Hg.
  - rewrite join_cons2. change ("/" ++ join "/" (y :: lp)) with (String "/" (join "/" (y :: lp))). split.
    + intros G. destruct (glob_split_at_slash _ _ _ G x eq_refl Hx) as (e1 & e2 & -> & G1 & G2 & M).
      rewrite (split_c_app "/" e1 e2 M). constructor; [exact G1|].
      apply (IH ltac:(discriminate) Hl e2). exact G2.
    + intros F. rewrite split_c_split1 in F. destruct (split1_c "/" e) as [h [tl|]] eqn:Es.
      * destruct (split1_c_some _ _ _ _ Es) as (-> & _).
        inversion F as [|? ? ? ? Hg Hrest]; subst.
        apply glob_app; [exact Hg|]. apply g_char; [discriminate | discriminate|].
        apply (IH ltac:(discriminate) Hl tl). exact Hrest.
      * inversion F as [|? ? ? ? Hg Hrest]; subst. inversion Hrest.
Qed.

(** G2, second part: a glob matches segment by segment *)
Theorem glob_segmentwise pat e :
  glob_rel pat e <-> Forall2 glob_rel (split_c "/" pat) (split_c "/" e).
Proof.
  rewrite <- (join_split_c "/" pat) at 1. change (str1 "/") with "/".
  apply glob_join_segments; [apply split_c_not_nil | apply Spil.Sid.SidLemmas.split_c_nomem_all].
Qed.
