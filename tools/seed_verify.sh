#!/bin/bash
# seed_verify.sh <mutdir> <worktree> : confirm a seeded change (tests unchanged, demo fails with / passes without)
M=$1; WT=$2
cd $WT && git checkout -q -- . && git apply $M/patch.diff || { echo "APPLY-FAIL"; exit 1; }
T=$(/venv/bin/python -m pytest -q -p no:cacheprovider --timeout=900 --continue-on-collection-errors 2>&1 | tail -1)
mkdir -p /tmp/h_seed
(cd /tmp && PYTHONPATH=$WT HOME=/tmp/h_seed /venv/bin/python $M/demo.py > /tmp/seed_demo_with.txt 2>&1); W=$?
git checkout -q -- .
(cd /tmp && PYTHONPATH=$WT HOME=/tmp/h_seed /venv/bin/python $M/demo.py > /tmp/seed_demo_without.txt 2>&1); WO=$?
echo "tests: $T | demo with patch exit=$W | without exit=$WO"
