(** C15: "the data read for a Sid is the overlay, in call order, of everything written to it", over histories of
    create / set / update calls: definitions (executable) and guards.  Proofs: Data/HistoryProofs.v;
    restatements and the instance on the configuration of the run: props/C15.v. *)
From Coq Require Import List String Ascii Bool Arith.
From Spil Require Import Base.Str Base.Dict Base.Outcome Base.PyPath Conf.Conf Conf.Routing Sid.Sid FS.Fs
  Search.TreeListDefs Data.Data.
Import ListNotations.
Local Open Scope string_scope.

(** ** The calls of a history.  [set(sid, k, v)] is [WUpdate cfg s [(k, v)]]. *)

Inductive wop :=
| WCreate (cfg s : string) (data : dict string)
| WUpdate (cfg s : string) (data : dict string).

Definition op_cfg (op : wop) : string := match op with WCreate cfg _ _ | WUpdate cfg _ _ => cfg end.
Definition op_sid (op : wop) : string := match op with WCreate _ s _ | WUpdate _ s _ => s end.
Definition op_data (op : wop) : dict string := match op with WCreate _ _ d | WUpdate _ _ d => d end.
Definition op_is_create (op : wop) : bool := match op with WCreate _ _ _ => true | WUpdate _ _ _ => false end.

(** ** The dotted-name stem that [sidecar_path] computes (the [let stem] of Data.sidecar_path, verbatim) *)

Definition sidecar_stem (p : string) : string :=
  let name := "." ++ path_name p in
  match rfind_dot name with
  | Some i => if Nat.ltb 0 i && Nat.ltb i (String.length name - 1) then take i name else name
  | None => name
  end.

(* the directory part of a sidecar path *)
Definition sidecar_dir (p : string) : string :=
  if String.eqb (parent_path p) "/" then "/" else parent_path p ++ "/".

(** ** Every path a creation of the entity path p may add to the tree: p, the directories that
    [fs_mkdir_parents _ p] makes, and the directories that [fs_touch _ p] makes (those above [parent_path p]).
    For an absolute p this is p and its ancestors (CreateFs.proper_dirs_anc); stated as a list so that no
    hypothesis on p is needed. *)
Definition created_paths (p : string) : list string :=
  p :: (ancestors_and_self p ++ ancestors_and_self (parent_path p))%list.

(* distinct keys *)
Fixpoint nodupb (l : list string) : bool :=
  match l with
  | [] => true
  | x :: t => negb (in_list x t) && nodupb t
  end.

(* a sidecar in which nothing can be written: json.load / open fail on it *)
Definition node_blocked (n : node) : bool :=
  match n with File (CJson _) => false | _ => true end.

(* the sidecar is absent or a readable JSON file *)
Definition sidecar_free (F : fs) (dp : string) : bool :=
  match fs_get F dp with None => true | Some n => negb (node_blocked n) end.

Section WithEnv.
Variable L : Loaded.
Variable R : Routing.

(** ** One call; a failing call leaves the tree as it is (the outcome type carries no state on failure) *)

Definition wrun (F : fs) (op : wop) : outcome (fs * bool) :=
  match op with
  | WCreate cfg s data => w_create L R F cfg s data
  | WUpdate cfg s data => w_update L F cfg s data
  end.

Definition wstep (F : fs) (op : wop) : fs * outcome bool :=
  match wrun F op with
  | Ok (F', b) => (F', Ok b)
  | Raise e => (F, Raise e)
  end.

Fixpoint run_hist (F : fs) (ops : list wop) : fs * list (outcome bool) :=
  match ops with
  | [] => (F, [])
  | op :: r =>
      let (F1, o) := wstep F op in
      let (F2, os) := run_hist F1 r in
      (F2, o :: os)
  end.

(** ** What a call addresses *)

(* the path of the entity *)
Definition entity_path (cfg s : string) : option string :=
  match Sid L s with
  | Ok x => match sid_path L x (default_cfg L cfg) with
            | Ok (Some p) => Some p
            | _ => None
            end
  | Raise _ => None
  end.

(* the sidecar file of the entity *)
Definition target (cfg s : string) : option string := option_map (sidecar L) (entity_path cfg s).

Definition op_target (op : wop) : option string := target (op_cfg op) (op_sid op).

Definition target_is (op : wop) (dp : string) : bool :=
  match op_target op with Some q => String.eqb q dp | None => false end.

(* the call succeeded with a write: it returned True, and a create() had data to write
   (an update() with the empty dict does write: the sidecar is made, or rewritten as it is) *)
Definition wrote (op : wop) (o : outcome bool) : bool :=
  match o with
  | Ok true => match op with
               | WCreate _ _ [] => false
               | _ => true
               end
  | _ => false
  end.

(* the paths that the creation part of a call may have added: those of a create() that did not raise *)
Definition op_created (op : wop) (o : outcome bool) : list string :=
  match op, o with
  | WCreate cfg s _, Ok _ => match entity_path cfg s with Some p => created_paths p | None => [] end
  | _, _ => []
  end.

(** ** Along a history *)

(* the data of every call that succeeded with a write to the sidecar dp, in call order *)
Fixpoint writes_to (dp : string) (F : fs) (ops : list wop) : list (dict string) :=
  match ops with
  | [] => []
  | op :: r =>
      let (F1, o) := wstep F op in
      ((if wrote op o && target_is op dp then [op_data op] else []) ++ writes_to dp F1 r)%list
  end.

(* the sidecars that calls succeeded to write *)
Fixpoint written_targets (F : fs) (ops : list wop) : list string :=
  match ops with
  | [] => []
  | op :: r =>
      let (F1, o) := wstep F op in
      ((if wrote op o then match op_target op with Some q => [q] | None => [] end else [])
       ++ written_targets F1 r)%list
  end.

(* the paths that creations may have added *)
Fixpoint created_by (F : fs) (ops : list wop) : list string :=
  match ops with
  | [] => []
  | op :: r => let (F1, o) := wstep F op in (op_created op o ++ created_by F1 r)%list
  end.

(** ** Guards on a history (decidable) *)

(* (1) the data of every call has distinct keys: it is a python dict.  Needed because the first write to a
   missing sidecar dumps the argument as it is ([write_data], case [None]) while the overlay [dupdate [] data]
   keeps one entry per key: with a repeated key the two differ (props/C15.v, C15_data_history_needs_nodup).
   This is the only clause that [data_history], [data_history_read] need; [data_history_blocked],
   [data_history_frame], [data_history_isolation] need no guard at all. *)
Definition hist_nodupb (ops : list wop) : bool :=
  forallb (fun op => nodupb (dkeys (op_data op))) ops.

(* (2) no path that a create() of the history may add has a component starting with "." .  A sidecar path has
   one (HistoryProofs.sidecar_hidden), so no created entity path or directory IS a sidecar path.  Not needed
   for the overlay equation (a creation adds only missing paths, as directories or empty files, and those read
   as no data, like a missing sidecar), but needed for "a sidecar that is absent or readable stays so"
   ([data_history_unblocked]): otherwise creating an entity at the place of a missing sidecar puts an empty file
   or a directory there and every later write to that sidecar raises.  Only create() adds paths, so update()
   calls are not constrained.  For an absolute path the clause is [no_hiddenb p] (HistoryProofs.created_visible_abs);
   a relative one-component path has the directory "." above it, which the second conjunct excludes. *)
Definition path_visibleb (p : string) : bool := no_hiddenb p && no_hiddenb (parent_path p).

Definition hist_pathsb (ops : list wop) : bool :=
  forallb (fun op => if op_is_create op
                     then match entity_path (op_cfg op) (op_sid op) with
                          | Some p => path_visibleb p
                          | None => true
                          end
                     else true) ops.

Definition hist_visibleb (ops : list wop) : bool := hist_nodupb ops && hist_pathsb ops.

End WithEnv.
