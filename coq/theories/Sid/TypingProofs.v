(** C01: the model's whole-regex, backtracking typing of a string ([sid_to_dict]) equals the
    segment-wise specification of Sid/TypingSpec.v, for every well-formed loaded configuration. *)
From Coq Require Import List String Ascii Bool Arith Lia.
From Spil Require Import Base.Str Base.Dict Base.Outcome Base.Tree Base.StrProofs Base.SplitProofs
  Regex.Re Regex.MatchProofs Resolva.Template Resolva.Resolver Conf.ConfUtil Conf.Conf Conf.WF
  Sid.Query Sid.Sid Sid.TypingSpec.
Import ListNotations.
Local Open Scope string_scope.

Definition nl : string := String "010" "".

(** ** What a match of a slash-free / newline-free / group-free pattern looks like *)

Definition cls_slash_free (c : cls) : bool :=
  match c with
  | CDigit | CNotSlash => true
  | CDot | CAny => false
  | CSet neg chars => if neg then existsb (Ascii.eqb "/") chars
                      else negb (existsb (Ascii.eqb "/") chars)
  end.

Definition cls_nl_free (c : cls) : bool :=
  match c with
  | CDigit | CDot => true
  | CNotSlash | CAny => false
  | CSet neg chars => if neg then false else negb (existsb (Ascii.eqb "010") chars)
  end.

Lemma cls_slash c a : cls_slash_free c = true -> in_cls c a = true -> Ascii.eqb a "/" = false.
Proof.
  intros Hc Ha. destruct (Ascii.eqb a "/") eqn:E; [|reflexivity].
  apply Ascii.eqb_eq in E. subst a. exfalso.
  destruct c as [| | | |neg chars]; simpl in Hc, Ha; try discriminate.
  destruct neg; destruct (existsb (Ascii.eqb "/") chars); simpl in Hc, Ha; discriminate.
Qed.

Lemma cls_nl c a : cls_nl_free c = true -> in_cls c a = true -> Ascii.eqb a "010" = false.
Proof.
  intros Hc Ha. destruct (Ascii.eqb a "010") eqn:E; [|reflexivity].
  apply Ascii.eqb_eq in E. subst a. exfalso.
  destruct c as [| | | |neg chars]; simpl in Hc, Ha; try discriminate.
  destruct neg; destruct (existsb (Ascii.eqb "010") chars); simpl in Hc, Ha; discriminate.
Qed.

Lemma Matches_slash_free r w c :
  Matches r w c -> slash_free r = true -> mem_c "/" w = false.
Proof.
  induction 1 as [| a | c a Ha | r1 r2 w1 w2 c1 c2 M1 IH1 M2 IH2 | r1 r2 w c M1 IH1
                 | r1 r2 w c M2 IH2 | c w Hw | n r w c M1 IH1]; intros Hs.
  - reflexivity.
  - cbn [mem_c slash_free] in *. rewrite orb_false_r.
    destruct (Ascii.eqb a "/"); [discriminate | reflexivity].
  - change (slash_free (Cls c)) with (cls_slash_free c) in Hs.
    cbn [mem_c]. rewrite (cls_slash c a Hs Ha). reflexivity.
  - simpl in Hs. apply andb_true_iff in Hs. destruct Hs as (H1 & H2).
    rewrite mem_c_app, (IH1 H1), (IH2 H2). reflexivity.
  - simpl in Hs. apply andb_true_iff in Hs. destruct Hs as (H1 & H2). auto.
  - simpl in Hs. apply andb_true_iff in Hs. destruct Hs as (H1 & H2). auto.
  - change (slash_free (Star c)) with (cls_slash_free c) in Hs.
    induction Hw as [|a w Ha Hw IH]; [reflexivity|].
    cbn [mem_c]. rewrite (cls_slash c a Hs Ha). exact IH.
  - simpl in Hs. auto.
Qed.

Lemma Matches_nl_free r w c :
  Matches r w c -> nl_free r = true -> mem_c "010" w = false.
Proof.
  induction 1 as [| a | c a Ha | r1 r2 w1 w2 c1 c2 M1 IH1 M2 IH2 | r1 r2 w c M1 IH1
                 | r1 r2 w c M2 IH2 | c w Hw | n r w c M1 IH1]; intros Hs.
  - reflexivity.
  - cbn [mem_c nl_free] in *. rewrite orb_false_r.
    destruct (Ascii.eqb a "010"); [discriminate | reflexivity].
  - change (nl_free (Cls c)) with (cls_nl_free c) in Hs.
    cbn [mem_c]. rewrite (cls_nl c a Hs Ha). reflexivity.
  - simpl in Hs. apply andb_true_iff in Hs. destruct Hs as (H1 & H2).
    rewrite mem_c_app, (IH1 H1), (IH2 H2). reflexivity.
  - simpl in Hs. apply andb_true_iff in Hs. destruct Hs as (H1 & H2). auto.
  - simpl in Hs. apply andb_true_iff in Hs. destruct Hs as (H1 & H2). auto.
  - change (nl_free (Star c)) with (cls_nl_free c) in Hs.
    induction Hw as [|a w Ha Hw IH]; [reflexivity|].
    cbn [mem_c]. rewrite (cls_nl c a Hs Ha). exact IH.
  - simpl in Hs. auto.
Qed.

Lemma Matches_group_free r w c :
  Matches r w c -> group_free r = true -> c = [].
Proof.
  induction 1 as [| a | c a Ha | r1 r2 w1 w2 c1 c2 M1 IH1 M2 IH2 | r1 r2 w c M1 IH1
                 | r1 r2 w c M2 IH2 | c w Hw | n r w c M1 IH1]; intros Hs; try reflexivity.
  - simpl in Hs. apply andb_true_iff in Hs. destruct Hs as (H1 & H2).
    rewrite (IH1 H1), (IH2 H2). reflexivity.
  - simpl in Hs. apply andb_true_iff in Hs. destruct Hs as (H1 & H2). auto.
  - simpl in Hs. apply andb_true_iff in Hs. destruct Hs as (H1 & H2). auto.
  - simpl in Hs. discriminate.
Qed.

(* the pattern of one placeholder of a well-formed sid template *)
Definition pat_ok (r : re) : Prop :=
  slash_free r = true /\ group_free r = true /\ (r = Star CNotSlash \/ nl_free r = true).

Lemma at_dollar_inv s : at_dollar s = true -> s = "" \/ s = nl.
Proof.
  destruct s as [|a [|b s]]; simpl; intros H.
  - left. reflexivity.
  - right. apply Ascii.eqb_eq in H. subst a. reflexivity.
  - discriminate.
Qed.

(** ** The compiled regex of a sid-shaped template *)

Definition g001 (n : string) : string := n ++ "001".

Fixpoint sid_res (ps : list (string * re)) : list re :=
  match ps with
  | [] => []
  | (n, r) :: rest =>
      match rest with
      | [] => [Grp (g001 n) r]
      | _ => Grp (g001 n) r :: Chr "/" :: sid_res rest
      end
  end.

Fixpoint sid_re (ps : list (string * re)) : re :=
  match ps with
  | [] => Eps
  | (n, r) :: rest =>
      match rest with
      | [] => Grp (g001 n) r
      | _ => Seq (Grp (g001 n) r) (Seq (Chr "/") (sid_re rest))
      end
  end.

Lemma sid_res_cons p rest : exists x l, sid_res (p :: rest) = x :: l.
Proof. destruct p as [n r]. destruct rest; simpl; eauto. Qed.

Lemma seq_of_sid_res ps : seq_of (sid_res ps) = sid_re ps.
Proof.
  induction ps as [|[n r] rest IH]; [reflexivity|].
  destruct rest as [|p2 rest2]; [reflexivity|].
  change (sid_res ((n, r) :: p2 :: rest2))
    with (Grp (g001 n) r :: Chr "/" :: sid_res (p2 :: rest2)).
  change (sid_re ((n, r) :: p2 :: rest2))
    with (Seq (Grp (g001 n) r) (Seq (Chr "/") (sid_re (p2 :: rest2)))).
  rewrite <- IH.
  destruct (sid_res_cons p2 rest2) as (x & l & E). rewrite E. reflexivity.
Qed.

Inductive Shape : list item -> Prop :=
| Shape1 n e : Shape [Ph n e]
| Shape2 n e rest : Shape rest -> Shape (Ph n e :: Lit "/" :: rest).

Lemma sid_shape_step n e t rest :
  sid_shape (Ph n e :: Lit t :: rest) = true -> t = "/" /\ sid_shape rest = true.
Proof.
  intros H.
  destruct t as [|a t]; [discriminate|].
  destruct t as [|b t].
  - destruct a as [[] [] [] [] [] [] [] []]; try discriminate. split; [reflexivity | exact H].
  - destruct a as [[] [] [] [] [] [] [] []]; discriminate.
Qed.

Lemma sid_shape_Shape_aux k : forall items,
  List.length items <= k -> sid_shape items = true -> Shape items.
Proof.
  induction k as [|k IH]; intros items Hl H.
  - destruct items; simpl in *; [discriminate | lia].
  - destruct items as [|[t|n e] rest]; try discriminate.
    destruct rest as [|[t|n2 e2] rest'].
    + constructor.
    + destruct (sid_shape_step n e t rest' H) as (-> & H').
      constructor. apply IH; [simpl in Hl; lia | exact H'].
    + discriminate.
Qed.

Lemma sid_shape_Shape items : sid_shape items = true -> Shape items.
Proof. apply (sid_shape_Shape_aux (List.length items)). lia. Qed.

Lemma nodupb_NoDup l : nodupb l = true -> NoDup l.
Proof.
  induction l as [|x l IH]; simpl; intros H.
  - constructor.
  - apply andb_true_iff in H. destruct H as (H1 & H2).
    constructor; [|auto].
    apply in_list_false. destruct (in_list x l); [discriminate | reflexivity].
Qed.

Lemma count_name_0 n seen : ~ In n seen -> count_name n seen = 0.
Proof.
  unfold count_name. induction seen as [|x seen IH]; simpl; intros H.
  - reflexivity.
  - destruct (String.eqb n x) eqn:E.
    + apply String.eqb_eq in E. subst. exfalso. apply H. left. reflexivity.
    + apply IH. intros H'. apply H. right. exact H'.
Qed.

Lemma leb_1000_1 : Nat.leb 1000 1 = false.
Proof. reflexivity. Qed.

Lemma pad3_1 : pad3 1 = "001".
Proof. reflexivity. Qed.

Lemma parse_lit_slash : parse_lit (String.length "/") "/" = Some [Chr "/"].
Proof. reflexivity. Qed.

Lemma ph_ok_pat n e :
  ph_ok (Ph n e) = true -> exists r, ph_re e = Some r /\ pat_ok r.
Proof.
  destruct e as [e|]; simpl; intros H.
  - destruct (parse_re e) as [r|]; [|discriminate].
    apply andb_true_iff in H. destruct H as (H & H3).
    apply andb_true_iff in H. destruct H as (H1 & H2).
    exists r. split; [reflexivity|]. repeat split; auto.
  - exists (Star CNotSlash). split; [reflexivity|]. repeat split; auto.
Qed.

Lemma item_names_ph n e rest : item_names (Ph n e :: rest) = n :: item_names rest.
Proof. reflexivity. Qed.
Lemma item_names_lit t rest : item_names (Lit t :: rest) = item_names rest.
Proof. reflexivity. Qed.

Lemma compile_item_ph n e rest seen b :
  ~ In n seen -> ph_re e = Some b ->
  compile_items (Ph n e :: rest) seen =
  match compile_items rest (n :: seen) with
  | Some r => Some (Grp (g001 n) b :: r)
  | None => None
  end.
Proof.
  intros Hn Hb. cbn [compile_items]. rewrite (count_name_0 n seen Hn), leb_1000_1, pad3_1.
  unfold ph_re in Hb. rewrite Hb. reflexivity.
Qed.

Lemma compile_shape : forall items, Shape items ->
  NoDup (item_names items) -> forallb ph_ok items = true ->
  forall seen, (forall n, In n (item_names items) -> ~ In n seen) ->
  exists ps, phs items = Some ps /\ compile_items items seen = Some (sid_res ps) /\
             ps <> [] /\ map fst ps = item_names items /\ Forall pat_ok (map snd ps).
Proof.
  induction 1 as [n e | n e rest Hsh IH]; intros Hnd Hok seen Hseen.
  - cbn [forallb] in Hok. apply andb_true_iff in Hok. destruct Hok as (Hok & _).
    destruct (ph_ok_pat n e Hok) as (b & Hb & Hp).
    exists [(n, b)]. split; [|split; [|split; [|split]]].
    + cbn [phs]. rewrite Hb. reflexivity.
    + rewrite (compile_item_ph n e [] seen b); [reflexivity | | exact Hb].
      apply Hseen. left. reflexivity.
    + discriminate.
    + reflexivity.
    + constructor; [exact Hp | constructor].
  - cbn [forallb] in Hok. apply andb_true_iff in Hok. destruct Hok as (Hok & Hok').
    apply andb_true_iff in Hok'. destruct Hok' as (_ & Hok').
    rewrite item_names_ph, item_names_lit in Hnd, Hseen.
    inversion Hnd as [|? ? Hn Hnd']; subst.
    destruct (ph_ok_pat n e Hok) as (b & Hb & Hp).
    destruct (IH Hnd' Hok' (n :: seen)) as (ps & Hps & Hc & Hne & Hnames & Hall).
    { intros x Hx [Hx'|Hx'].
      - subst x. apply Hn. exact Hx.
      - apply (Hseen x); [right; exact Hx | exact Hx']. }
    exists ((n, b) :: ps). split; [|split; [|split; [|split]]].
    + cbn [phs]. rewrite Hb, Hps. reflexivity.
    + rewrite (compile_item_ph n e _ seen b); [| apply Hseen; left; reflexivity | exact Hb].
      cbn [compile_items]. rewrite parse_lit_slash, Hc.
      destruct ps as [|p ps']; [congruence|]. destruct p. reflexivity.
    + discriminate.
    + rewrite item_names_ph, item_names_lit. cbn [map fst]. rewrite Hnames. reflexivity.
    + constructor; [exact Hp | exact Hall].
Qed.

(** ** The matcher on the compiled regex, placeholder by placeholder *)

Definition kspec (k : string -> string -> caps -> option caps) (acc : caps) : Prop :=
  forall w rest c, k w rest c = if at_dollar rest then Some (acc ++ c)%list else None.

Lemma slash_split_unique h tl w s'' :
  mem_c "/" h = false -> mem_c "/" w = false ->
  h ++ String "/" tl = w ++ String "/" s'' -> w = h /\ s'' = tl.
Proof.
  intros Hh Hw E. apply (f_equal (split1_c "/")) in E.
  rewrite (split1_c_app "/" h tl Hh), (split1_c_app "/" w s'' Hw) in E.
  inversion E. split; reflexivity.
Qed.

Lemma m_step g r R s k acc :
  slash_free r = true -> group_free r = true -> kspec k acc ->
  match split1_c "/" s with
  | (h, Some tl) =>
      if match_full r h
      then exists k', kspec k' (acc ++ [(g, h)])%list /\
                      m (Seq (Grp g r) (Seq (Chr "/") R)) s k = m R tl k'
      else m (Seq (Grp g r) (Seq (Chr "/") R)) s k = None
  | (_, None) => m (Seq (Grp g r) (Seq (Chr "/") R)) s k = None
  end.
Proof.
  intros Hsf Hgf Hk.
  destruct (split1_c "/" s) as [h [tl|]] eqn:Esp.
  - destruct (split1_c_some _ _ _ _ Esp) as (Es & Hh).
    destruct (match_full r h) eqn:Emf.
    + apply match_full_iff in Emf. destruct Emf as (c & Mc).
      assert (c = []) by (apply (Matches_group_free r h c Mc Hgf)). subst c.
      cbn [m].
      rewrite (m_unique' r s _ h (String "/" tl) [] Es Mc).
      * cbn [m]. rewrite Ascii.eqb_refl.
        eexists. split; [|reflexivity].
        intros w3 s3 c3. cbv beta. rewrite Hk. destruct (at_dollar s3); [|reflexivity].
        f_equal. simpl. rewrite <- app_assoc. reflexivity.
      * intros w' s2' c' E' M' Hk'. cbn [m] in Hk'.
        destruct s2' as [|b s'']; [congruence|].
        destruct (Ascii.eqb "/" b) eqn:Eb; [|congruence].
        apply Ascii.eqb_eq in Eb. subst b.
        pose proof (Matches_slash_free r w' c' M' Hsf) as Hw'.
        rewrite Es in E'. destruct (slash_split_unique h tl w' s'' Hh Hw' E') as (-> & ->).
        rewrite (Matches_group_free r h c' M' Hgf). repeat split; reflexivity.
    + cbn [m]. apply m_none. intros w s2 c E M. cbn [m].
      destruct s2 as [|b s'']; [reflexivity|].
      destruct (Ascii.eqb "/" b) eqn:Eb; [|reflexivity].
      apply Ascii.eqb_eq in Eb. subst b. exfalso.
      pose proof (Matches_slash_free r w c M Hsf) as Hw.
      rewrite Es in E. destruct (slash_split_unique h tl w s'' Hh Hw E) as (-> & ->).
      assert (match_full r h = true) by (apply match_full_iff; exists c; exact M).
      congruence.
  - destruct (split1_c_none _ _ _ Esp) as (_ & Hs).
    cbn [m]. apply m_none. intros w s2 c E M. cbn [m].
    destruct s2 as [|b s'']; [reflexivity|].
    destruct (Ascii.eqb "/" b) eqn:Eb; [|reflexivity].
    apply Ascii.eqb_eq in Eb. subst b. exfalso.
    rewrite E, mem_c_app in Hs. simpl in Hs. rewrite orb_true_r in Hs. discriminate.
Qed.

Lemma mem_slash_nl w : mem_c "/" w = false -> mem_c "/" (w ++ nl) = false.
Proof. intros H. rewrite mem_c_app, H. reflexivity. Qed.

Lemma mem_nl_nl w : mem_c "010" (w ++ nl) = true.
Proof. rewrite mem_c_app. simpl. apply orb_true_r. Qed.

(* the last placeholder: the continuation is python's "$" *)
Lemma last_spec g nm r s k acc :
  pat_ok r -> kspec k acc ->
  match m (Grp g r) s k with
  | None => segs_ok [(nm, r)] (split_c "/" s) = false
  | Some x =>
      exists w s2, x = (acc ++ [(g, w)])%list /\ s = w ++ s2 /\
        ((s2 = "" /\ seg_ok r w = true /\ split_c "/" s = [w]) \/
         (s2 = nl /\ segs_ok [(nm, r)] (split_c "/" s) = false))
  end.
Proof.
  intros (Hsf & Hgf & Hnl) Hk. cbn [m].
  destruct (m r s _) as [x|] eqn:Hm.
  - destruct (m_sound _ _ _ _ Hm) as (w & s2 & c & E & M & Hkw).
    rewrite (Matches_group_free r w c M Hgf) in Hkw. rewrite Hk in Hkw.
    destruct (at_dollar s2) eqn:Ed; [|discriminate].
    inversion Hkw as [Hx]. cbn [app] in Hx. clear Hkw.
    pose proof (Matches_slash_free r w c M Hsf) as Hw.
    exists w, s2. split; [reflexivity|]. split; [exact E|].
    destruct (at_dollar_inv s2 Ed) as [-> | ->].
    + left. rewrite app_nil_r_s in E. subst s. split; [reflexivity|]. split.
      * unfold seg_ok. apply match_full_iff. exists c. exact M.
      * apply split_c_nomem. exact Hw.
    + right. split; [reflexivity|]. subst s.
      rewrite (split_c_nomem "/" (w ++ nl) (mem_slash_nl w Hw)).
      cbn [segs_ok]. rewrite andb_true_r. unfold seg_ok.
      destruct (match_full r (w ++ nl)) eqn:Emf; [|reflexivity]. exfalso.
      apply match_full_iff in Emf. destruct Emf as (c' & M').
      destruct Hnl as [-> | Hnl].
      * destruct (Matches_Star_inv _ _ _ M') as (Hall & _).
        cbn [m] in Hm.
        rewrite (star_greedy CNotSlash (w ++ nl) Hall "" _ (acc ++ [(g, (w ++ nl)%string)])%list) in Hm.
        -- inversion Hm as [Hx']. rewrite <- Hx in Hx'. apply app_inv_head in Hx'.
           inversion Hx' as [Hw']. exact (app_neq_self w _ _ Hw').
        -- cbv beta. rewrite Hk. reflexivity.
      * pose proof (Matches_nl_free r _ _ M' Hnl) as H1. rewrite mem_nl_nl in H1. discriminate.
  - destruct (segs_ok [(nm, r)] (split_c "/" s)) eqn:Eso; [|reflexivity]. exfalso.
    destruct (split_c "/" s) as [|seg [|seg2 segs]] eqn:Es; cbn [segs_ok] in Eso.
    + discriminate.
    + rewrite andb_true_r in Eso. apply split_c_single in Es. subst seg.
      unfold seg_ok in Eso. apply match_full_iff in Eso. destruct Eso as (c & M).
      pose proof (m_complete r s c M "" (fun w s' c0 => k w s' (c0 ++ [(g, w)])%list)) as Hc.
      rewrite app_nil_r_s in Hc. apply Hc; [|exact Hm].
      rewrite Hk. discriminate.
    + rewrite andb_false_r in Eso. discriminate.
Qed.

Lemma kspec_init : kspec (fun _ rest c => if at_dollar rest then Some c else None) [].
Proof. intros w rest c. reflexivity. Qed.

Lemma segs_ok_cons n r ps g segs :
  segs_ok ((n, r) :: ps) (g :: segs) = seg_ok r g && segs_ok ps segs.
Proof. reflexivity. Qed.

Definition names001 (ps : list (string * re)) : list string := map (fun p => g001 (fst p)) ps.

Lemma sid_re_spec : forall ps, ps <> [] -> Forall pat_ok (map snd ps) ->
  forall s acc k, kspec k acc ->
  match m (sid_re ps) s k with
  | None => segs_ok ps (split_c "/" s) = false
  | Some x =>
      exists segs s2,
        x = (acc ++ combine (names001 ps) segs)%list /\
        List.length segs = List.length ps /\
        s = join "/" segs ++ s2 /\
        ((s2 = "" /\ segs_ok ps segs = true /\ split_c "/" s = segs) \/
         (s2 = nl /\ segs_ok ps (split_c "/" s) = false))
  end.
Proof.
  induction ps as [|[n r] rest IH]; intros Hne Hall s acc k Hk; [congruence|].
  cbn [map snd] in Hall. inversion Hall as [|? ? Hp Hall']; subst.
  destruct rest as [|p2 rest2].
  - (* last placeholder *)
    cbn [sid_re].
    pose proof (last_spec (g001 n) n r s k acc Hp Hk) as H.
    destruct (m (Grp (g001 n) r) s k) as [x|]; [|exact H].
    destruct H as (w & s2 & Hx & Es & Hcases).
    exists [w], s2. split; [exact Hx|]. split; [reflexivity|]. split; [exact Es|].
    destruct Hcases as [(-> & Hok & Hsp) | (-> & Hbad)].
    + left. split; [reflexivity|]. split; [|exact Hsp].
      cbn [segs_ok]. rewrite Hok. reflexivity.
    + right. split; [reflexivity | exact Hbad].
  - (* placeholder, "/", more *)
    change (sid_re ((n, r) :: p2 :: rest2))
      with (Seq (Grp (g001 n) r) (Seq (Chr "/") (sid_re (p2 :: rest2)))).
    destruct Hp as (Hsf & Hgf & Hnl).
    pose proof (m_step (g001 n) r (sid_re (p2 :: rest2)) s k acc Hsf Hgf Hk) as Hstep.
    rewrite (split_c_split1 "/" s).
    destruct (split1_c "/" s) as [h [tl|]] eqn:Esp.
    + destruct (split1_c_some _ _ _ _ Esp) as (Es & Hh).
      destruct (match_full r h) eqn:Emf.
      * destruct Hstep as (k' & Hk' & ->).
        assert (Hne' : p2 :: rest2 <> []) by discriminate.
        pose proof (IH Hne' Hall' tl (acc ++ [(g001 n, h)])%list k' Hk') as H.
        destruct (m (sid_re (p2 :: rest2)) tl k') as [x|].
        -- destruct H as (segs & s2 & Hx & Hlen & Etl & Hcases).
           exists (h :: segs), s2.
           assert (Hsegs : segs <> []) by (destruct segs; [discriminate Hlen | discriminate]).
           split; [|split; [|split]].
           ++ rewrite Hx. unfold names001. cbn [map combine fst]. rewrite <- app_assoc. reflexivity.
           ++ cbn [List.length]. rewrite Hlen. reflexivity.
           ++ rewrite (join_cons_ne "/" h segs Hsegs). rewrite Es, Etl.
              rewrite !app_assoc_s. reflexivity.
           ++ destruct Hcases as [(-> & Hok & Hsp) | (-> & Hbad)].
              ** left. split; [reflexivity|]. split.
                 --- rewrite segs_ok_cons. unfold seg_ok at 1. rewrite Emf, Hok. reflexivity.
                 --- rewrite Hsp. reflexivity.
              ** right. split; [reflexivity|]. rewrite segs_ok_cons, Hbad. apply andb_false_r.
        -- rewrite segs_ok_cons, H. apply andb_false_r.
      * rewrite Hstep. rewrite segs_ok_cons. unfold seg_ok at 1. rewrite Emf. reflexivity.
    + rewrite Hstep. rewrite segs_ok_cons. destruct p2. cbn [segs_ok]. apply andb_false_r.
Qed.

(** ** match_to_dict and fmt on the captures *)

Lemma drop_last_g001 n : drop_last 3 (g001 n) = n.
Proof. unfold g001. exact (drop_last_app n "001"). Qed.

Lemma mtd_aux : forall ns segs data,
  NoDup ns -> (forall n, In n ns -> ~ In n (map fst data)) ->
  match_to_dict_aux false (combine (map g001 ns) segs) data = Ok (data ++ combine ns segs)%list.
Proof.
  induction ns as [|n ns IH]; intros segs data Hnd Hdis.
  - cbn [map combine match_to_dict_aux]. rewrite app_nil_r. reflexivity.
  - destruct segs as [|v segs].
    + cbn [map combine match_to_dict_aux]. rewrite app_nil_r. reflexivity.
    + inversion Hnd as [|? ? Hn Hnd']; subst.
      cbn [map combine match_to_dict_aux]. rewrite drop_last_g001.
      assert (Hset : dset data n v = (data ++ [(n, v)])%list).
      { apply dset_new. apply Hdis. left. reflexivity. }
      assert (Hgo : match_to_dict_aux false (combine (map g001 ns) segs) (dset data n v)
                    = Ok (data ++ (n, v) :: combine ns segs)%list).
      { rewrite Hset. rewrite IH.
        - rewrite <- app_assoc. reflexivity.
        - exact Hnd'.
        - intros x Hx. rewrite map_app, in_app_iff. intros [H|[H|[]]].
          + apply (Hdis x); [right; exact Hx | exact H].
          + simpl in H. subst x. apply Hn. exact Hx. }
      destruct (dget data n); cbn [andb]; exact Hgo.
Qed.

Lemma dget_combine : forall ns (vs : list string) n v,
  NoDup ns -> In (n, v) (combine ns vs) -> dget (combine ns vs) n = Some v.
Proof.
  induction ns as [|a ns IH]; intros vs n v Hnd Hin.
  - destruct Hin.
  - destruct vs as [|b vs]; [destruct Hin|].
    inversion Hnd as [|? ? Ha Hnd']; subst.
    cbn [combine dget]. destruct Hin as [Hin|Hin].
    + inversion Hin; subst. rewrite String.eqb_refl. reflexivity.
    + destruct (String.eqb n a) eqn:E.
      * apply String.eqb_eq in E. subst a. exfalso. apply Ha.
        apply (in_combine_l _ _ _ _ Hin).
      * apply IH; assumption.
Qed.

Lemma Shape_names_ne items : Shape items -> item_names items <> [].
Proof. intros H. inversion H; subst; rewrite item_names_ph; discriminate. Qed.

Lemma fmt_shape : forall items, Shape items -> forall d segs,
  List.length segs = List.length (item_names items) ->
  (forall n v, In (n, v) (combine (item_names items) segs) -> dget d n = Some v) ->
  fmt items d = Ok (join "/" segs).
Proof.
  induction 1 as [n e | n e rest Hsh IH]; intros d segs Hlen Hd.
  - rewrite item_names_ph in Hlen, Hd. change (item_names []) with (@nil string) in *.
    destruct segs as [|v [|v2 segs]]; try discriminate Hlen.
    cbn [fmt]. rewrite (Hd n v) by (left; reflexivity).
    cbn [bind join]. rewrite app_nil_r_s. reflexivity.
  - rewrite item_names_ph, item_names_lit in Hlen, Hd.
    destruct segs as [|v segs]; [discriminate Hlen|].
    cbn [List.length] in Hlen. injection Hlen as Hlen.
    cbn [fmt]. rewrite (Hd n v) by (left; reflexivity).
    rewrite (IH d segs Hlen) by (intros x y Hxy; apply Hd; right; exact Hxy).
    cbn [bind].
    assert (Hsegs : segs <> []).
    { pose proof (Shape_names_ne rest Hsh) as Hne. destruct segs; [|discriminate].
      destruct (item_names rest); [congruence | discriminate Hlen]. }
    rewrite (join_cons_ne "/" v segs Hsegs). reflexivity.
Qed.

(** ** One template *)

Definition typed_by (r : resolver) (t : tpl) (s : string) : outcome (option (dict string)) :=
  do x <- resolve_tpl r t s;
  match x with
  | None => Ok None
  | Some d => do f <- fmt (tp_items t) d; Ok (if String.eqb f s then Some d else None)
  end.

(* what the rest of the development uses: resolve_tpl never raises, and when it answers
   [Some d] the format check decides whether the specification accepts *)
Definition tpl_spec (r : resolver) (t : tpl) (s : string) : Prop :=
  exists x, resolve_tpl r t s = Ok x /\
    match x with
    | None => accepts t s = None
    | Some d => exists f, fmt (tp_items t) d = Ok f /\
                          accepts t s = (if String.eqb f s then Some d else None)
    end.

Lemma tpl_spec_holds r t s :
  r_check_dup r = false ->
  compile (tp_items t) = Some (tp_re t) ->
  wf_sid_tpl t = true ->
  tpl_spec r t s.
Proof.
  intros Hdup Hcomp Hwf.
  unfold wf_sid_tpl in Hwf. apply andb_true_iff in Hwf. destruct Hwf as (Hwf & Hok).
  apply andb_true_iff in Hwf. destruct Hwf as (Hshape & Hnd).
  apply sid_shape_Shape in Hshape. apply nodupb_NoDup in Hnd.
  destruct (compile_shape (tp_items t) Hshape Hnd Hok [])
    as (ps & Hps & Hc & Hne & Hnames & Hall).
  { intros n _ []. }
  unfold compile in Hcomp. rewrite Hc in Hcomp. inversion Hcomp as [Hre].
  rewrite seq_of_sid_res in Hre.
  unfold tpl_spec, resolve_tpl, search_anchored. rewrite <- Hre, Hdup.
  pose proof (sid_re_spec ps Hne Hall s [] _ kspec_init) as H.
  destruct (m (sid_re ps) s _) as [x|].
  - destruct H as (segs & s2 & Hx & Hlen & Es & Hcases).
    cbn [app] in Hx.
    assert (Hx' : x = combine (map g001 (item_names (tp_items t))) segs).
    { rewrite Hx. unfold names001. rewrite <- Hnames, map_map. reflexivity. }
    unfold match_to_dict. rewrite Hx'.
    rewrite (mtd_aux (item_names (tp_items t)) segs [] Hnd) by (intros n _ []).
    cbn [app bind].
    set (d := combine (item_names (tp_items t)) segs).
    assert (Hlen' : List.length segs = List.length (item_names (tp_items t))).
    { rewrite <- Hnames, map_length. exact Hlen. }
    assert (Hd : d <> []).
    { unfold d. destruct (item_names (tp_items t)) eqn:En.
      - exfalso. rewrite <- Hnames in En. destruct ps; [congruence | discriminate].
      - destruct segs; [discriminate Hlen' | discriminate]. }
    assert (Hfmt : fmt (tp_items t) d = Ok (join "/" segs)).
    { apply (fmt_shape _ Hshape d segs Hlen').
      intros n v Hin. apply dget_combine; assumption. }
    exists (Some d). split.
    + destruct d; [congruence | reflexivity].
    + exists (join "/" segs). split; [exact Hfmt|].
      unfold accepts. rewrite Hps. cbv zeta.
      destruct Hcases as [(-> & Hsok & Hsp) | (-> & Hbad)].
      * rewrite app_nil_r_s in Es. rewrite <- Es, String.eqb_refl.
        rewrite Hsp, Hsok. rewrite Hnames. reflexivity.
      * rewrite Hbad.
        destruct (String.eqb (join "/" segs) s) eqn:E; [|reflexivity].
        apply String.eqb_eq in E. rewrite <- E in Es. symmetry in Es.
        exfalso. exact (app_neq_self _ _ _ Es).
  - exists None. split; [reflexivity|].
    unfold accepts. rewrite Hps. cbv zeta. rewrite H. reflexivity.
Qed.

Lemma typed_by_of_spec r t s : tpl_spec r t s -> typed_by r t s = Ok (accepts t s).
Proof.
  intros (x & Hx & H). unfold typed_by. rewrite Hx. cbn [bind].
  destruct x as [d|].
  - destruct H as (f & Hf & Ha). rewrite Hf. cbn [bind]. rewrite Ha. reflexivity.
  - rewrite H. reflexivity.
Qed.

Theorem typed_by_accepts r t s :
  r_check_dup r = false ->
  compile (tp_items t) = Some (tp_re t) ->
  wf_sid_tpl t = true ->
  typed_by r t s = Ok (accepts t s).
Proof. intros H1 H2 H3. apply typed_by_of_spec. apply tpl_spec_holds; assumption. Qed.

(** ** The templates of a loaded configuration *)

Lemma mk_tpl_compile n src t : mk_tpl n src = Some t -> compile (tp_items t) = Some (tp_re t).
Proof.
  unfold mk_tpl. destruct (parse_template src) as [items|]; [|discriminate].
  destruct (compile items) as [r|] eqn:E; [|discriminate].
  intros H. inversion H; subst. exact E.
Qed.

Lemma mk_tpls_compile : forall l tpls, mk_tpls l = Some tpls ->
  forall t, In t tpls -> compile (tp_items t) = Some (tp_re t).
Proof.
  induction l as [|[n src] l IH]; intros tpls H t Hin; simpl in H.
  - inversion H; subst. destruct Hin.
  - destruct (mk_tpl n src) as [x|] eqn:Ex; [|discriminate].
    destruct (mk_tpls l) as [rs|]; [|discriminate].
    inversion H; subst. destruct Hin as [<- | Hin].
    + apply (mk_tpl_compile n src). exact Ex.
    + apply (IH rs eq_refl). exact Hin.
Qed.

Lemma load_compile c Ld : load c = Some Ld ->
  forall t, In t (r_tpls (l_sid Ld)) -> compile (tp_items t) = Some (tp_re t).
Proof.
  unfold load. destruct (mk_resolver (load_sid_templates c) false) as [r|] eqn:Er; [|discriminate].
  destruct (opt_all _); [|discriminate]. intros H. inversion H; subst. cbn [l_sid].
  unfold mk_resolver in Er. destruct (mk_tpls (load_sid_templates c)) as [ts|] eqn:Et; [|discriminate].
  inversion Er; subst. cbn [r_tpls]. apply (mk_tpls_compile _ _ Et).
Qed.

Lemma wf_loaded_parts Ld : wf_loadedb Ld = true ->
  nodupb (map tp_name (r_tpls (l_sid Ld))) = true /\
  forallb wf_sid_tpl (r_tpls (l_sid Ld)) = true /\
  r_check_dup (l_sid Ld) = false.
Proof.
  unfold wf_loadedb, wf_loaded_base. intros H.
  apply andb_true_iff in H. destruct H as (H & _).
  apply andb_true_iff in H. destruct H as (H & _).
  apply andb_true_iff in H. destruct H as (H & H3).
  apply andb_true_iff in H. destruct H as (H1 & H2).
  repeat split; auto. destruct (r_check_dup (l_sid Ld)); [discriminate | reflexivity].
Qed.

Lemma all_tpl_spec c Ld s : load c = Some Ld -> wf_loadedb Ld = true ->
  forall t, In t (r_tpls (l_sid Ld)) -> tpl_spec (l_sid Ld) t s.
Proof.
  intros Hload Hwf t Hin. destruct (wf_loaded_parts Ld Hwf) as (_ & Hall & Hdup).
  apply tpl_spec_holds.
  - exact Hdup.
  - apply (load_compile c Ld Hload t Hin).
  - rewrite forallb_forall in Hall. apply Hall. exact Hin.
Qed.

Lemma find_by_name : forall tpls t, nodupb (map tp_name tpls) = true -> In t tpls ->
  find (fun t' => String.eqb (tp_name t') (tp_name t)) tpls = Some t.
Proof.
  induction tpls as [|t0 tpls IH]; intros t Hnd Hin; [destruct Hin|].
  cbn [map nodupb] in Hnd. apply andb_true_iff in Hnd. destruct Hnd as (H0 & Hnd).
  cbn [find]. destruct Hin as [-> | Hin].
  - rewrite String.eqb_refl. reflexivity.
  - destruct (String.eqb (tp_name t0) (tp_name t)) eqn:E.
    + exfalso. apply String.eqb_eq in E.
      assert (Hi : in_list (tp_name t0) (map tp_name tpls) = true).
      { apply in_list_In. rewrite E. apply in_map. exact Hin. }
      rewrite Hi in H0. discriminate.
    + apply IH; assumption.
Qed.

(** ** sid_to_dict *)

Section Typing.
Variable Ld : Loaded.
Variable s : string.
Hypothesis Hspec : forall t, In t (r_tpls (l_sid Ld)) -> tpl_spec (l_sid Ld) t s.
Hypothesis Hfind : forall t, In t (r_tpls (l_sid Ld)) -> find_tpl (l_sid Ld) (tp_name t) = Some t.

Lemma canonical_of t d f : In t (r_tpls (l_sid Ld)) -> fmt (tp_items t) d = Ok f ->
  canonical Ld (tp_name t) d s = Ok (String.eqb f s).
Proof.
  intros Hin Hf. unfold canonical. rewrite (Hfind t Hin), Hf. reflexivity.
Qed.

Lemma resolve_all_canonical : forall l, incl l (r_tpls (l_sid Ld)) ->
  exists all, resolve_all_in (l_sid Ld) l s = Ok all /\
              first_canonical Ld all s = Ok (natural_in l s).
Proof.
  induction l as [|t l IH]; intros Hincl.
  - exists []. split; reflexivity.
  - assert (Hin : In t (r_tpls (l_sid Ld))) by (apply Hincl; left; reflexivity).
    destruct IH as (ys & Hys & Hfc). { intros x Hx. apply Hincl. right. exact Hx. }
    destruct (Hspec t Hin) as (x & Hx & H).
    cbn [resolve_all_in natural_in]. rewrite Hx, Hys. cbn [bind].
    destruct x as [d|].
    + destruct H as (f & Hf & Ha).
      exists ((tp_name t, d) :: ys). split; [reflexivity|].
      cbn [first_canonical]. rewrite (canonical_of t d f Hin Hf). cbn [bind].
      rewrite Ha. destruct (String.eqb f s); [reflexivity | exact Hfc].
    + exists ys. split; [reflexivity|]. rewrite H. exact Hfc.
Qed.

Lemma resolve_first_spec : forall l, incl l (r_tpls (l_sid Ld)) ->
  match resolve_first_in (l_sid Ld) l s with
  | Ok None => natural_in l s = None
  | Ok (Some (n, d)) =>
      exists t f, In t (r_tpls (l_sid Ld)) /\ n = tp_name t /\ fmt (tp_items t) d = Ok f /\
                  (String.eqb f s = true -> natural_in l s = Some (n, d))
  | Raise _ => False
  end.
Proof.
  induction l as [|t l IH]; intros Hincl.
  - reflexivity.
  - assert (Hin : In t (r_tpls (l_sid Ld))) by (apply Hincl; left; reflexivity).
    assert (IH' := IH (fun x Hx => Hincl x (or_intror Hx))). clear IH.
    destruct (Hspec t Hin) as (x & Hx & H).
    cbn [resolve_first_in natural_in]. rewrite Hx. cbn [bind].
    destruct x as [d|].
    + destruct H as (f & Hf & Ha). exists t, f. repeat split; auto.
      intros E. rewrite Ha, E. reflexivity.
    + rewrite H. exact IH'.
Qed.

Lemma sid_to_dict_natural_aux : sid_to_dict Ld s "" = Ok (natural Ld s).
Proof.
  unfold sid_to_dict, natural, resolve_first, resolve_all. cbn [sempty].
  destruct (sempty s) eqn:Es; [reflexivity|].
  pose proof (resolve_first_spec (r_tpls (l_sid Ld)) (incl_refl _)) as H.
  destruct (resolve_first_in (l_sid Ld) (r_tpls (l_sid Ld)) s) as [[[n d]|]|e]; cbn [bind].
  - destruct H as (t & f & Hin & -> & Hf & Hnat).
    rewrite (canonical_of t d f Hin Hf). cbn [bind].
    destruct (String.eqb f s) eqn:E.
    + rewrite (Hnat eq_refl). reflexivity.
    + destruct (resolve_all_canonical (r_tpls (l_sid Ld)) (incl_refl _)) as (all & Hall & Hfc).
      rewrite Hall. cbn [bind]. exact Hfc.
  - rewrite H. reflexivity.
  - destruct H.
Qed.

Lemma sid_to_dict_forced_aux ty : ty <> "" -> sid_to_dict Ld s ty = Ok (forced Ld ty s).
Proof.
  intros Hty. unfold sid_to_dict, forced, resolve_one.
  assert (Ety : sempty ty = false) by (destruct ty; [congruence | reflexivity]).
  rewrite Ety.
  destruct (sempty s) eqn:Es; [reflexivity|].
  destruct (find_tpl (l_sid Ld) ty) as [t|] eqn:Ef; [|reflexivity].
  assert (Hin : In t (r_tpls (l_sid Ld)) /\ tp_name t = ty).
  { unfold find_tpl in Ef. apply find_some in Ef. destruct Ef as (Hin & E).
    apply String.eqb_eq in E. split; assumption. }
  destruct Hin as (Hin & Hname).
  destruct (Hspec t Hin) as (x & Hx & H). rewrite Hx. cbn [bind].
  destruct x as [d|].
  - destruct H as (f & Hf & Ha).
    assert (Hd : d <> []).
    { unfold resolve_tpl in Hx. destruct (search_anchored (tp_re t) s); [|discriminate].
      destruct (match_to_dict _ _) as [d'|]; [|discriminate]. cbn [bind] in Hx.
      destruct d'; [discriminate|]. inversion Hx. discriminate. }
    destruct d as [|p d']; [congruence|].
    subst ty. rewrite (canonical_of t (p :: d') f Hin Hf). cbn [bind].
    rewrite Ha. destruct (String.eqb f s); reflexivity.
  - rewrite H. reflexivity.
Qed.

End Typing.

Lemma loaded_find c Ld : load c = Some Ld -> wf_loadedb Ld = true ->
  forall t, In t (r_tpls (l_sid Ld)) -> find_tpl (l_sid Ld) (tp_name t) = Some t.
Proof.
  intros _ Hwf t Hin. destruct (wf_loaded_parts Ld Hwf) as (Hnd & _ & _).
  unfold find_tpl. apply find_by_name; assumption.
Qed.

Theorem sid_to_dict_natural : forall c Ld s,
  load c = Some Ld -> wf_loadedb Ld = true ->
  sid_to_dict Ld s "" = Ok (natural Ld s).
Proof.
  intros c Ld s Hload Hwf. apply sid_to_dict_natural_aux.
  - apply (all_tpl_spec c Ld s Hload Hwf).
  - apply (loaded_find c Ld Hload Hwf).
Qed.

Theorem sid_to_dict_forced : forall c Ld s ty,
  load c = Some Ld -> wf_loadedb Ld = true -> ty <> "" ->
  sid_to_dict Ld s ty = Ok (forced Ld ty s).
Proof.
  intros c Ld s ty Hload Hwf Hty. apply sid_to_dict_forced_aux.
  - apply (all_tpl_spec c Ld s Hload Hwf).
  - apply (loaded_find c Ld Hload Hwf).
  - exact Hty.
Qed.
