(** Explicit outcomes: every Python statement that can raise in reachable code. *)
From Coq Require Import String List.
Import ListNotations.

Inductive exn :=
| SpilException | ResolvaException | ValueError | KeyError | TypeError
| ReError | JSONDecodeError | OSError | ConfigError | NotImplementedError | Unmodelled.

Inductive outcome (A : Type) :=
| Ok (a : A)
| Raise (e : exn).
Arguments Ok {A} a.
Arguments Raise {A} e.

Definition bind {A B} (x : outcome A) (f : A -> outcome B) : outcome B :=
  match x with Ok a => f a | Raise e => Raise e end.

Notation "'do' x <- e1 ; e2" := (bind e1 (fun x => e2)) (at level 200, x name, e1 at level 100, e2 at level 200).
Notation "'do' ' p <- e1 ; e2" := (bind e1 (fun p => e2)) (at level 200, p pattern, e1 at level 100, e2 at level 200).

Fixpoint mapM {A B} (f : A -> outcome B) (l : list A) : outcome (list B) :=
  match l with
  | [] => Ok []
  | x :: t => do y <- f x; do ys <- mapM f t; Ok (y :: ys)
  end.

Definition exn_name (e : exn) : string :=
  match e with
  | SpilException => "SpilException" | ResolvaException => "ResolvaException"
  | ValueError => "ValueError" | KeyError => "KeyError" | TypeError => "TypeError"
  | ReError => "ReError" | JSONDecodeError => "JSONDecodeError" | OSError => "OSError"
  | ConfigError => "ConfigError" | NotImplementedError => "NotImplementedError"
  | Unmodelled => "Unmodelled"
  end%string.
