(** C09 / C11 / C12: the generic finder depends on a finder only through its star search;
    the list finder is an instance; sorted_search_g specification; order independence;
    exists / children / find_all. *)
From Coq Require Import List String Ascii Bool Arith Lia Permutation Sorted Setoid.
From Spil Require Import Base.Str Base.Dict Base.Outcome Base.StrProofs Base.SplitProofs Base.PyPath
  Regex.Re Resolva.Template Resolva.Resolver Conf.ConfUtil Conf.Conf Conf.Routing Conf.WF
  Sid.Query Sid.Sid Sid.SidLemmas Cache.OrderProofs
  Search.Unfold Search.FindList Search.SortLemmas Search.FindListProofs Search.Finders FS.Fs Data.Data.
Import ListNotations.
Local Open Scope string_scope.

(** * A1. The answer depends on the finder only through its star search *)

Lemma concat_mapM_ext {A B} (f g : A -> outcome (list B)) l :
  (forall x, f x = g x) -> concat_mapM f l = concat_mapM g l.
Proof.
  intros Hfg. induction l as [|x l IH]; [reflexivity|]. cbn [concat_mapM]. rewrite Hfg, IH. reflexivity.
Qed.

Section A1.
Variable Ld : Loaded.
Variables star1 star2 : star_fn.
Hypothesis Hstar : forall qs, star1 qs = star2 qs.

Lemma sorted_search_g_ext qs : sorted_search_g Ld star1 qs = sorted_search_g Ld star2 qs.
Proof.
  unfold sorted_search_g. destruct qs as [|q0 rest]; [reflexivity|].
  destruct (index_of ">" (split_c "/" (s_string q0))) as [index|]; [|reflexivity].
  rewrite (concat_mapM_ext
             (fun q => do q' <- Sid Ld (replace ">" "*" (uri q)); star1 [q'])
             (fun q => do q' <- Sid Ld (replace ">" "*" (uri q)); star2 [q'])); [reflexivity|].
  intros q. destruct (Sid Ld (replace ">" "*" (uri q))) as [q'|e]; cbn [bind]; [apply Hstar | reflexivity].
Qed.

Lemma do_find_g_ext qs : do_find_g Ld star1 qs = do_find_g Ld star2 qs.
Proof.
  unfold do_find_g. destruct qs as [|q rest]; [reflexivity|].
  rewrite sorted_search_g_ext, Hstar. reflexivity.
Qed.

Lemma find_g_ext_s s : find_g Ld star1 s = find_g Ld star2 s.
Proof.
  unfold find_g. destruct (Sid Ld s) as [x|e]; cbn [bind]; [|reflexivity].
  rewrite do_find_g_ext.
  match goal with |- (if ?b then _ else _) = _ => destruct b end; [reflexivity|].
  destruct (unfold_search Ld s false false) as [qs|e]; cbn [bind]; [apply do_find_g_ext | reflexivity].
Qed.

Lemma find_g_sid_ext x0 : find_g_sid Ld star1 x0 = find_g_sid Ld star2 x0.
Proof.
  unfold find_g_sid. destruct (sid_factory Ld (FromSid x0)) as [x|e]; cbn [bind]; [|reflexivity].
  rewrite do_find_g_ext.
  match goal with |- (if ?b then _ else _) = _ => destruct b end; [reflexivity|].
  destruct (unfold_search Ld (s_string x0) false false) as [qs|e]; cbn [bind]; [apply do_find_g_ext | reflexivity].
Qed.

(** A1 *)
Theorem find_g_ext :
  (forall qs, sorted_search_g Ld star1 qs = sorted_search_g Ld star2 qs) /\
  (forall qs, do_find_g Ld star1 qs = do_find_g Ld star2 qs) /\
  (forall s, find_g Ld star1 s = find_g Ld star2 s).
Proof. split; [exact sorted_search_g_ext | split; [exact do_find_g_ext | exact find_g_ext_s]]. Qed.

End A1.

(** * A2. The generic finder over the list star search is the list finder of FindList.v *)

Section A2.
Variable Ld : Loaded.
Variable items : list string.
Let lstar : star_fn := fun qs => star_search qs items.

Lemma flist_sorted_search qs : sorted_search_g Ld lstar qs = sorted_search Ld qs items.
Proof. reflexivity. Qed.

Lemma flist_do_find qs : do_find_g Ld lstar qs = do_find Ld qs items.
Proof. reflexivity. Qed.

Lemma flist_find s : find_g Ld lstar s = find_list Ld items s.
Proof. reflexivity. Qed.

End A2.

(** A2 *)
Theorem flist_is_find_list Ld items :
  (forall qs, sorted_search_g Ld (fun qs => star_search qs items) qs = sorted_search Ld qs items) /\
  (forall qs, do_find_g Ld (fun qs => star_search qs items) qs = do_find Ld qs items) /\
  (forall s, find_g Ld (fun qs => star_search qs items) s = find_list Ld items s).
Proof. split; [|split]; intros; reflexivity. Qed.

(* the FList finder of the routing *)
Corollary ffind_FList Ld F id items s : ffind Ld F (FList id items) s = find_list Ld items s.
Proof. reflexivity. Qed.

(** * C3. find_all: no duplicates (dedup_first = uniq_first) *)

Lemma uniq_first_aux_spec : forall l seen,
  NoDup (uniq_first_aux seen l) /\
  forall x, In x (uniq_first_aux seen l) <-> In x l /\ ~ In x seen.
Proof.
  induction l as [|y l IH]; intros seen; cbn [uniq_first_aux].
  - split; [constructor|]. intros x. simpl. tauto.
  - destruct (in_list y seen) eqn:E.
    + destruct (IH seen) as (Hnd & Hin). split; [exact Hnd|]. intros x. rewrite Hin.
      apply in_list_In in E. simpl. split; [tauto|]. intros ([<-|H] & Hn); [contradiction | tauto].
    + apply in_list_false in E. destruct (IH (y :: seen)) as (Hnd & Hin). split.
      * constructor; [|exact Hnd]. rewrite Hin. simpl. tauto.
      * intros x. simpl. rewrite Hin. simpl. split.
        -- intros [<-|(H1 & H2)]; [tauto|]. split; [right; exact H1 | tauto].
        -- intros ([<-|H] & Hn); [left; reflexivity|].
           destruct (string_dec y x) as [->|Hne]; [left; reflexivity|]. right. split; [exact H|].
           intros [Heq|Hs]; [apply Hne; exact Heq | apply Hn; exact Hs].
Qed.

Lemma dedup_first_NoDup l : NoDup (dedup_first l).
Proof. apply (uniq_first_aux_spec l []). Qed.

Lemma dedup_first_In l x : In x (dedup_first l) <-> In x l.
Proof.
  unfold dedup_first, uniq_first. rewrite (proj2 (uniq_first_aux_spec l []) x). simpl. tauto.
Qed.

(** C3 *)
Theorem find_all_nodup Ld Rt F s l : find_all Ld Rt F s = Ok l -> NoDup l.
Proof.
  unfold find_all. destruct (unfold_search Ld s false false) as [qs|e]; cbn [bind]; [|discriminate].
  destruct (concat_mapM _ (group_by_finder Rt qs [])) as [res|e]; cbn [bind]; [|discriminate].
  intros H. inversion H. apply dedup_first_NoDup.
Qed.

(** * C1. exists *)

Theorem sid_exists_spec Ld Rt F x b : sid_exists Ld Rt F x = Ok b -> s_fields x <> [] ->
  exists l, find_all Ld Rt F (s_string x) = Ok l /\ b = match l with [] => false | s :: _ => truthy s end.
Proof.
  unfold sid_exists. destruct (s_fields x) as [|kv fs]; intros H Hne; [contradiction|].
  destruct (find_all Ld Rt F (s_string x)) as [l|e]; cbn [bind] in H; [|discriminate].
  inversion H. exists l. split; [reflexivity|]. destruct l; reflexivity.
Qed.

Theorem sid_exists_empty Ld Rt F x : s_fields x = [] -> sid_exists Ld Rt F x = Ok false.
Proof. unfold sid_exists. intros ->. reflexivity. Qed.

(* a raise of exists is a raise of the search *)
Lemma sid_exists_raise Ld Rt F x ex : sid_exists Ld Rt F x = Raise ex -> find_all Ld Rt F (s_string x) = Raise ex.
Proof.
  unfold sid_exists. destruct (s_fields x); [discriminate|].
  destruct (find_all Ld Rt F (s_string x)); cbn [bind]; [discriminate|]. intros H. inversion H. reflexivity.
Qed.

(** * C2. A leaf has no children *)

Theorem leaf_no_children Ld Rt F x : is_leaf Ld x = true -> children Ld Rt F x = Ok [].
Proof. unfold children. intros ->. reflexivity. Qed.

(* children of a non-leaf are exactly the search "<sid>/*" *)
Lemma children_nonleaf Ld Rt F x : is_leaf Ld x = false ->
  children Ld Rt F x = (do q <- sid_div Ld x "*"; find_all Ld Rt F (s_string q)).
Proof. unfold children. intros ->. reflexivity. Qed.

Corollary children_nodup Ld Rt F x l : children Ld Rt F x = Ok l -> NoDup l.
Proof.
  unfold children. destruct (is_leaf Ld x).
  - intros H. inversion H. constructor.
  - destruct (sid_div Ld x "*") as [q|e]; cbn [bind]; [|discriminate]. apply find_all_nodup.
Qed.

(** * A3. sorted_search_g over an arbitrary star search *)

Section A3.
Variable Ld : Loaded.
Variable star : star_fn.

Definition founds_of (qs : list sid) : outcome (list string) :=
  concat_mapM (fun q => do q' <- Sid Ld (replace ">" "*" (uri q)); star [q']) qs.

Lemma sorted_mem founds e : In e (rev (sort_paths (nodup_s founds))) <-> In e founds.
Proof.
  rewrite <- in_rev, <- (nodup_s_In e founds). destruct (sort_paths_spec (nodup_s founds)) as (Hp & _).
  split; [apply (Permutation_in _ (Permutation_sym Hp)) | apply (Permutation_in _ Hp)].
Qed.

(** A3 *)
Theorem sorted_search_g_spec qs l : sorted_search_g Ld star qs = Ok l ->
  qs = [] /\ l = [] \/
  exists q0 rest index founds,
    qs = q0 :: rest /\ index_of ">" (split_c "/" (s_string q0)) = Some index /\
    founds_of qs = Ok founds /\
    let k := fun x => firstn index (split_c "/" x) in
    (forall r, In r l -> In r founds) /\
    (forall e, In e founds -> exists r, In r l /\ k r = k e /\
                                        segs_ltb (split_c "/" r) (split_c "/" e) = false) /\
    NoDup (map k l).
Proof.
  unfold sorted_search_g, founds_of. destruct qs as [|q0 rest]; intros H.
  - left. inversion H. split; reflexivity.
  - right. destruct (index_of ">" (split_c "/" (s_string q0))) as [index|] eqn:Ei; [|discriminate].
    destruct (concat_mapM _ (q0 :: rest)) as [founds|] eqn:Ec; [|discriminate]. cbn [bind] in H.
    inversion H as [Hl]. clear H. exists q0, rest, index, founds.
    split; [reflexivity|]. split; [exact Ei|]. split; [reflexivity|].
    destruct (group_firsts_spec index _ (rev_sort_desc (nodup_s founds))) as (H1 & H2 & H3).
    cbv zeta. split; [|split].
    + intros r Hr. apply sorted_mem. apply H1. exact Hr.
    + intros e He. apply sorted_mem in He. apply (H2 e He).
    + exact H3.
Qed.

(* the result for a given prefix is unique and is the greatest of its group *)
Corollary sorted_search_g_greatest qs l index q0 rest founds :
  sorted_search_g Ld star qs = Ok l -> qs = q0 :: rest ->
  index_of ">" (split_c "/" (s_string q0)) = Some index -> founds_of qs = Ok founds ->
  forall r e, In r l -> In e founds ->
    firstn index (split_c "/" r) = firstn index (split_c "/" e) ->
    segs_ltb (split_c "/" r) (split_c "/" e) = false.
Proof.
  intros H Hqs Hi Hf r e Hr He Hk.
  destruct (sorted_search_g_spec qs l H) as [(-> & _) | (q0' & rest' & index' & founds' & Hqs' & Hi' & Hf' & Hin & Hcov & Hnd)];
    [discriminate|].
  rewrite Hqs in Hqs'. inversion Hqs'; subst q0' rest'. rewrite Hi in Hi'. inversion Hi'; subst index'.
  rewrite Hf in Hf'. inversion Hf'; subst founds'. cbv zeta in *.
  destruct (Hcov e He) as (r' & Hr' & Hk' & Hge).
  assert (r' = r); [|subst r'; exact Hge].
  assert (Hkk : firstn index (split_c "/" r') = firstn index (split_c "/" r)) by congruence.
  clear - Hnd Hr Hr' Hkk. induction l as [|a l IH]; [destruct Hr|].
  simpl in Hnd. inversion Hnd as [|? ? Hna Hnd']; subst.
  destruct Hr as [<-|Hr], Hr' as [<-|Hr'].
  - reflexivity.
  - exfalso. apply Hna. rewrite <- Hkk. apply (in_map (fun x => firstn index (split_c "/" x))). exact Hr'.
  - exfalso. apply Hna. rewrite Hkk. apply (in_map (fun x => firstn index (split_c "/" x))). exact Hr.
  - apply (IH Hr Hnd' Hr').
Qed.

(* every result comes from the star search of one of the searches with ">" replaced by "*" *)
Corollary sorted_search_g_from_star qs l r : sorted_search_g Ld star qs = Ok l -> In r l ->
  exists q q' ys, In q qs /\ Sid Ld (replace ">" "*" (uri q)) = Ok q' /\ star [q'] = Ok ys /\ In r ys.
Proof.
  intros H Hr. destruct (sorted_search_g_spec qs l H) as [(_ & ->) | (q0 & rest & index & founds & Hqs & _ & Hf & Hin & _)];
    [destruct Hr|].
  cbv zeta in Hin. apply Hin in Hr. unfold founds_of in Hf.
  destruct (concat_mapM_In _ _ _ _ Hf Hr) as (q & ys & Hq & Hy & Hry).
  destruct (Sid Ld (replace ">" "*" (uri q))) as [q'|e] eqn:Eq; cbn [bind] in Hy; [|discriminate].
  exists q, q', ys. repeat split; assumption.
Qed.

End A3.

(** * A4. The ">" answer does not depend on the order in which a finder enumerates its candidates *)

Lemma path_leb_antisym a b : path_leb a b = true -> path_leb b a = true -> a = b.
Proof.
  unfold path_leb. rewrite !negb_true_iff. intros Hba Hab.
  pose proof (segs_ltb_total _ _ Hab Hba) as E.
  rewrite <- (join_split_c "/" a), <- (join_split_c "/" b), E. reflexivity.
Qed.

Lemma sorted_unique {A} (le : A -> A -> Prop) :
  (forall a b, le a b -> le b a -> a = b) ->
  forall l1 l2, StronglySorted le l1 -> StronglySorted le l2 -> NoDup l1 -> NoDup l2 ->
  (forall e, In e l1 <-> In e l2) -> l1 = l2.
Proof.
  intros Hanti. induction l1 as [|a l1 IH]; intros l2 Hs1 Hs2 Hn1 Hn2 Hin.
  - destruct l2 as [|b l2]; [reflexivity|]. exfalso. apply (proj2 (Hin b)). left. reflexivity.
  - destruct l2 as [|b l2]; [exfalso; apply (proj1 (Hin a)); left; reflexivity|].
    inversion Hs1 as [|? ? Hs1' Hall1]; subst. inversion Hs2 as [|? ? Hs2' Hall2]; subst.
    inversion Hn1 as [|? ? Hna Hn1']; subst. inversion Hn2 as [|? ? Hnb Hn2']; subst.
    rewrite Forall_forall in Hall1, Hall2.
    assert (Hab : a = b).
    { destruct (proj1 (Hin a) (or_introl eq_refl)) as [Hba | Ha2]; [symmetry; exact Hba|].
      destruct (proj2 (Hin b) (or_introl eq_refl)) as [Hab | Hb1]; [exact Hab|].
      apply Hanti; [apply Hall1; exact Hb1 | apply Hall2; exact Ha2]. }
    subst b. f_equal. apply IH; try assumption. intros e. split; intros He.
    + destruct (proj1 (Hin e) (or_intror He)) as [<-|H]; [contradiction | exact H].
    + destruct (proj2 (Hin e) (or_intror He)) as [<-|H]; [contradiction | exact H].
Qed.

Lemma sort_paths_set_eq l1 l2 : NoDup l1 -> NoDup l2 -> (forall e, In e l1 <-> In e l2) ->
  sort_paths l1 = sort_paths l2.
Proof.
  intros Hn1 Hn2 Hin. destruct (sort_paths_spec l1) as (Hp1 & Hs1). destruct (sort_paths_spec l2) as (Hp2 & Hs2).
  apply (sorted_unique path_le path_leb_antisym); try assumption.
  - apply (Permutation_NoDup Hp1 Hn1).
  - apply (Permutation_NoDup Hp2 Hn2).
  - intros e. split; intros He.
    + apply (Permutation_in _ Hp2). apply Hin. apply (Permutation_in _ (Permutation_sym Hp1)). exact He.
    + apply (Permutation_in _ Hp1). apply Hin. apply (Permutation_in _ (Permutation_sym Hp2)). exact He.
Qed.

(* sorting after de-duplication only depends on the set of elements *)
Lemma sort_nodup_set_eq l1 l2 : (forall e, In e l1 <-> In e l2) ->
  sort_paths (nodup_s l1) = sort_paths (nodup_s l2).
Proof.
  intros Hin. apply sort_paths_set_eq; [apply nodup_s_NoDup | apply nodup_s_NoDup |].
  intros e. rewrite !nodup_s_In. apply Hin.
Qed.

(* two outcomes agree up to the order (and multiplicity) of the results; raises correspond *)
Definition set_rel (o1 o2 : outcome (list string)) : Prop :=
  match o1, o2 with
  | Ok a, Ok b => forall e, In e a <-> In e b
  | Raise _, Raise _ => True
  | _, _ => False
  end.

Lemma concat_mapM_set_rel {A} (f1 f2 : A -> outcome (list string)) l :
  (forall x, set_rel (f1 x) (f2 x)) -> set_rel (concat_mapM f1 l) (concat_mapM f2 l).
Proof.
  intros Hf. induction l as [|x l IH]; cbn [concat_mapM].
  - simpl. tauto.
  - specialize (Hf x). destruct (f1 x) as [a|e1], (f2 x) as [b|e2]; cbn [bind]; simpl in Hf; try contradiction;
      [|exact I].
    destruct (concat_mapM f1 l) as [a'|e1], (concat_mapM f2 l) as [b'|e2]; cbn [bind]; simpl in IH; try contradiction;
      [|exact I].
    simpl. intros e. rewrite !in_app_iff, Hf, IH. reflexivity.
Qed.

Section A4.
Variable Ld : Loaded.
Variables star1 star2 : star_fn.
Hypothesis Hset : forall qs l1 l2, star1 qs = Ok l1 -> star2 qs = Ok l2 -> forall e, In e l1 <-> In e l2.
Hypothesis Hok : forall qs, (exists l, star1 qs = Ok l) <-> (exists l, star2 qs = Ok l).

Lemma stars_set_rel qs : set_rel (star1 qs) (star2 qs).
Proof.
  unfold set_rel. destruct (star1 qs) as [a|e1] eqn:E1, (star2 qs) as [b|e2] eqn:E2.
  - apply (Hset qs a b E1 E2).
  - destruct (proj1 (Hok qs) (ex_intro _ a E1)) as (l & Hl). congruence.
  - destruct (proj2 (Hok qs) (ex_intro _ b E2)) as (l & Hl). congruence.
  - exact I.
Qed.

Lemma founds_set_rel qs : set_rel (founds_of Ld star1 qs) (founds_of Ld star2 qs).
Proof.
  unfold founds_of. apply concat_mapM_set_rel. intros q.
  destruct (Sid Ld (replace ">" "*" (uri q))) as [q'|e]; cbn [bind]; [apply stars_set_rel | exact I].
Qed.

(** A4: equal lists (not just equal sets); raises correspond *)
Theorem set_equal_stars qs :
  match sorted_search_g Ld star1 qs, sorted_search_g Ld star2 qs with
  | Ok l1, Ok l2 => l1 = l2
  | Raise _, Raise _ => True
  | _, _ => False
  end.
Proof.
  unfold sorted_search_g. destruct qs as [|q0 rest]; [reflexivity|].
  destruct (index_of ">" (split_c "/" (s_string q0))) as [index|]; [|exact I].
  pose proof (founds_set_rel (q0 :: rest)) as Hr. unfold founds_of in Hr.
  destruct (concat_mapM _ (q0 :: rest)) as [f1|e1]; destruct (concat_mapM _ (q0 :: rest)) as [f2|e2];
    cbn [bind]; simpl in Hr; try contradiction; [|exact I].
  rewrite (sort_nodup_set_eq f1 f2 Hr). reflexivity.
Qed.

Corollary set_equal_stars_ok qs l : sorted_search_g Ld star1 qs = Ok l -> sorted_search_g Ld star2 qs = Ok l.
Proof.
  intros H. pose proof (set_equal_stars qs) as Hr. rewrite H in Hr.
  destruct (sorted_search_g Ld star2 qs) as [l2|e]; [subst; reflexivity | contradiction].
Qed.

Corollary set_equal_stars_eq qs l1 l2 :
  sorted_search_g Ld star1 qs = Ok l1 -> sorted_search_g Ld star2 qs = Ok l2 -> l1 = l2.
Proof. intros H1 H2. pose proof (set_equal_stars qs) as Hr. rewrite H1, H2 in Hr. exact Hr. Qed.

(* the whole ">" search: a search containing ">" gives equal lists through do_find_g *)
Corollary set_equal_stars_do_find qs l :
  existsb (fun q => Nat.ltb 0 (count ">" (s_string q))) qs = true ->
  do_find_g Ld star1 qs = Ok l -> do_find_g Ld star2 qs = Ok l.
Proof.
  unfold do_find_g. destruct qs as [|q rest]; [intros _ H; exact H|]. intros ->. apply set_equal_stars_ok.
Qed.

End A4.

(** * B1. glob is monotone in the set of paths *)

Lemma sort_s_isort l : sort_s l = isort str_leb l.
Proof. reflexivity. Qed.

Lemma sort_s_In x l : In x (sort_s l) <-> In x l.
Proof.
  rewrite sort_s_isort. pose proof (isort_perm str_leb l) as Hp.
  split; [apply (Permutation_in _ (Permutation_sym Hp)) | apply (Permutation_in _ Hp)].
Qed.

Lemma fs_glob_spec F pattern l : fs_glob F pattern = Some l ->
  forall p, In p l <-> In p (dkeys F) /\ comps_match (split_c "/" pattern) (split_c "/" p) = true.
Proof.
  unfold fs_glob. destruct (mem_c "[" pattern); [discriminate|]. intros H p. inversion H; subst l.
  rewrite sort_s_In, filter_In. reflexivity.
Qed.

(* definedness only depends on the pattern *)
Lemma fs_glob_defined F F' pattern : fs_glob F pattern = None <-> fs_glob F' pattern = None.
Proof. unfold fs_glob. destruct (mem_c "[" pattern); split; intros H; try reflexivity; discriminate. Qed.

(** B1 *)
Theorem glob_monotone F F' pattern l l' :
  fs_glob F pattern = Some l -> fs_glob F' pattern = Some l' ->
  (forall p, In p (dkeys F) -> In p (dkeys F')) -> incl l l'.
Proof.
  intros H H' Hsub p Hp. apply (fs_glob_spec _ _ _ H') . apply (fs_glob_spec _ _ _ H) in Hp.
  destruct Hp as (Hk & Hm). split; [apply Hsub; exact Hk | exact Hm].
Qed.

(* what the larger file system adds to a glob are only new paths *)
Lemma glob_new_paths F F' pattern l l' :
  fs_glob F pattern = Some l -> fs_glob F' pattern = Some l' ->
  forall p, In p l' -> ~ In p l -> In p (dkeys F') /\ ~ In p (dkeys F).
Proof.
  intros H H' p Hp Hn. apply (fs_glob_spec _ _ _ H') in Hp. destruct Hp as (Hk & Hm).
  split; [exact Hk|]. intros Hk0. apply Hn. apply (fs_glob_spec _ _ _ H). split; assumption.
Qed.

(** * B2. Junk paths do not change a path search *)

Section B2.
Variable Ld : Loaded.
Variable cfg : string.

Definition accepts (q x : sid) : bool :=
  String.eqb (s_type x) (s_type q) && sid_bool x &&
  forallb (fun kv => let pat := replace ">" "*" (snd kv) in
                     let val := match sid_get x (fst kv) with Some w => w | None => "None" end in
                     fn_match (S (String.length pat + String.length val)) pat val)
          (s_fields q).

Definition pstep (q : sid) (acc : outcome (list string * list string)) (path : string)
  : outcome (list string * list string) :=
  do '(fp, res) <- acc;
  if in_list path fp then Ok (fp, res) else
  do x <- sid_factory Ld (FromPath path cfg);
  if negb (String.eqb (s_type x) (s_type q)) then Ok (fp, res) else
  if negb (sid_bool x) then Ok (fp, res) else
  if negb (forallb (fun kv => let pat := replace ">" "*" (snd kv) in
                              let val := match sid_get x (fst kv) with Some w => w | None => "None" end in
                              fn_match (S (String.length pat + String.length val)) pat val)
                   (s_fields q)) then Ok (fp, res) else
  Ok ((fp ++ [path])%list, (res ++ [s_string x])%list).

Definition pstate := (list (string * string) * list string * list string)%type.

Definition ostep (F : fs) (st : outcome pstate) (q : sid) : outcome pstate :=
  do '(searched, found_paths, results) <- st;
  do po <- sid_path Ld q cfg;
  let pattern := match po with Some p => p | None => "None" end in
  if existsb (fun tp => String.eqb (fst tp) (s_type q) && String.eqb (snd tp) pattern) searched
  then Ok (searched, found_paths, results) else
  match fs_glob F pattern with
  | None => Raise Unmodelled
  | Some found =>
      do r <- fold_left (pstep q) found (Ok (found_paths, results));
      Ok ((searched ++ [(s_type q, pattern)])%list, fst r, snd r)
  end.

Lemma paths_star_unfold F qs :
  paths_star Ld F cfg qs = (do '(_, _, results) <- fold_left (ostep F) qs (Ok ([], [], [])); Ok results).
Proof. reflexivity. Qed.

Lemma pstep_ok q fp res p :
  pstep q (Ok (fp, res)) p =
  if in_list p fp then Ok (fp, res) else
  do x <- sid_factory Ld (FromPath p cfg);
  if accepts q x then Ok ((fp ++ [p])%list, (res ++ [s_string x])%list) else Ok (fp, res).
Proof.
  unfold pstep, accepts. cbn [bind]. destruct (in_list p fp); [reflexivity|].
  destruct (sid_factory Ld (FromPath p cfg)) as [x|e]; cbn [bind]; [|reflexivity].
  destruct (String.eqb (s_type x) (s_type q)); cbn [negb andb]; [|reflexivity].
  destruct (sid_bool x); cbn [negb andb]; [|reflexivity].
  destruct (forallb _ (s_fields q)); reflexivity.
Qed.

Lemma pstep_raise q l e : fold_left (pstep q) l (Raise e) = Raise e.
Proof. induction l as [|p l IH]; [reflexivity|]. cbn [fold_left]. exact IH. Qed.

Lemma ostep_raise F l e : fold_left (ostep F) l (Raise e) = Raise e.
Proof. induction l as [|p l IH]; [reflexivity|]. cbn [fold_left]. exact IH. Qed.

(* every recorded path resolved to a Sid whose string is among the results *)
Definition fp_inv (fp res : list string) : Prop :=
  forall p, In p fp -> exists x, sid_factory Ld (FromPath p cfg) = Ok x /\ In (s_string x) res.

(* the inner loop over the globbed paths, as sets *)
Lemma inner_spec q : forall found fp res, fp_inv fp res ->
  match fold_left (pstep q) found (Ok (fp, res)) with
  | Ok (fp', res') =>
      fp_inv fp' res' /\
      (forall p, In p found -> exists x, sid_factory Ld (FromPath p cfg) = Ok x) /\
      (forall p, In p fp' <-> In p fp \/
         (In p found /\ exists x, sid_factory Ld (FromPath p cfg) = Ok x /\ accepts q x = true)) /\
      (forall s, In s res' <-> In s res \/
         exists p x, In p found /\ sid_factory Ld (FromPath p cfg) = Ok x /\ accepts q x = true /\ s = s_string x)
  | Raise e => exists p, In p found /\ sid_factory Ld (FromPath p cfg) = Raise e
  end.
Proof.
  induction found as [|p found IH]; intros fp res Hinv.
  - cbn [fold_left]. split; [exact Hinv|]. split; [intros p []|]. split.
    + intros p. split; [auto | intros [H | ([] & _)]; exact H].
    + intros s. split; [auto | intros [H | (p & x & [] & _)]; exact H].
  - cbn [fold_left]. rewrite pstep_ok. destruct (in_list p fp) eqn:Ein.
    + apply in_list_In in Ein. destruct (Hinv p Ein) as (xp & Hxp & Hsp).
      specialize (IH fp res Hinv). destruct (fold_left (pstep q) found (Ok (fp, res))) as [[fp' res']|e].
      * destruct IH as (I1 & I2 & I3 & I4). split; [exact I1|]. split; [|split].
        -- intros p0 [<- | Hp0]; [exists xp; exact Hxp | apply I2; exact Hp0].
        -- intros p0. rewrite I3. split.
           ++ intros [H | (H1 & H2)]; [left; exact H | right; split; [right; exact H1 | exact H2]].
           ++ intros [H | ([<- | H1] & H2)]; [left; exact H | left; exact Ein | right; split; assumption].
        -- intros s. rewrite I4. split.
           ++ intros [H | (p0 & x & H1 & H2)]; [left; exact H | right; exists p0, x; split; [right; exact H1 | exact H2]].
           ++ intros [H | (p0 & x & [<- | H1] & H2 & H3 & H4)]; [left; exact H | | right; exists p0, x; auto].
              left. rewrite Hxp in H2. inversion H2; subst x. rewrite H4. exact Hsp.
      * destruct IH as (p0 & Hp0 & He). exists p0. split; [right; exact Hp0 | exact He].
    + apply in_list_false in Ein.
      destruct (sid_factory Ld (FromPath p cfg)) as [x|e] eqn:Ex; cbn [bind].
      2:{ rewrite pstep_raise. exists p. split; [left; reflexivity | exact Ex]. }
      destruct (accepts q x) eqn:Eacc.
      * assert (Hinv2 : fp_inv (fp ++ [p]) (res ++ [s_string x])).
        { intros p0 Hp0. apply in_app_or in Hp0. destruct Hp0 as [Hp0 | [<- | []]].
          - destruct (Hinv p0 Hp0) as (x0 & H1 & H2). exists x0. split; [exact H1 | apply in_or_app; left; exact H2].
          - exists x. split; [exact Ex | apply in_or_app; right; left; reflexivity]. }
        specialize (IH _ _ Hinv2).
        destruct (fold_left (pstep q) found (Ok ((fp ++ [p])%list, (res ++ [s_string x])%list))) as [[fp' res']|e].
        -- destruct IH as (I1 & I2 & I3 & I4). split; [exact I1|]. split; [|split].
           ++ intros p0 [<- | Hp0]; [exists x; exact Ex | apply I2; exact Hp0].
           ++ intros p0. rewrite I3, in_app_iff. cbn [In]. split.
              ** intros [[H | [<- | []]] | (H1 & H2)].
                 --- left; exact H.
                 --- right. split; [left; reflexivity | exists x; split; assumption].
                 --- right. split; [right; exact H1 | exact H2].
              ** intros [H | ([<- | H1] & H2)].
                 --- left; left; exact H.
                 --- left; right; left; reflexivity.
                 --- right; split; assumption.
           ++ intros s. rewrite I4, in_app_iff. cbn [In]. split.
              ** intros [[H | [<- | []]] | (p0 & x0 & H1 & H2)].
                 --- left; exact H.
                 --- right. exists p, x. repeat split; auto.
                 --- right. exists p0, x0. split; [right; exact H1 | exact H2].
              ** intros [H | (p0 & x0 & [<- | H1] & H2 & H3 & H4)].
                 --- left; left; exact H.
                 --- left; right; left. rewrite Ex in H2. inversion H2; subst x0. symmetry. exact H4.
                 --- right. exists p0, x0. auto.
        -- destruct IH as (p0 & Hp0 & He). exists p0. split; [right; exact Hp0 | exact He].
      * specialize (IH fp res Hinv). destruct (fold_left (pstep q) found (Ok (fp, res))) as [[fp' res']|e].
        -- destruct IH as (I1 & I2 & I3 & I4). split; [exact I1|]. split; [|split].
           ++ intros p0 [<- | Hp0]; [exists x; exact Ex | apply I2; exact Hp0].
           ++ intros p0. rewrite I3. split.
              ** intros [H | (H1 & H2)]; [left; exact H | right; split; [right; exact H1 | exact H2]].
              ** intros [H | ([<- | H1] & (x0 & H2 & H3))]; [left; exact H | | right; split; [exact H1 | exists x0; auto]].
                 rewrite Ex in H2. inversion H2; subst x0. congruence.
           ++ intros s. rewrite I4. split.
              ** intros [H | (p0 & x0 & H1 & H2)]; [left; exact H | right; exists p0, x0; split; [right; exact H1 | exact H2]].
              ** intros [H | (p0 & x0 & [<- | H1] & H2 & H3 & H4)]; [left; exact H | | right; exists p0, x0; auto].
                 rewrite Ex in H2. inversion H2; subst x0. congruence.
        -- destruct IH as (p0 & Hp0 & He). exists p0. split; [right; exact Hp0 | exact He].
Qed.

End B2.

Section B2junk.
Variable Ld : Loaded.
Variable cfg : string.
Variables F F' : fs.
Hypothesis Hsub : forall p, In p (dkeys F) -> In p (dkeys F').
Hypothesis Hjunk : forall p, In p (dkeys F') -> ~ In p (dkeys F) ->
  sid_factory Ld (FromPath p cfg) = Ok empty_sid.

Lemma accepts_empty q : accepts q empty_sid = false.
Proof. unfold accepts. change (sid_bool empty_sid) with false. rewrite andb_false_r. reflexivity. Qed.

Lemma inner_junk q found found' fp fp' res res' :
  incl found found' ->
  (forall p, In p found' -> ~ In p found -> sid_factory Ld (FromPath p cfg) = Ok empty_sid) ->
  fp_inv Ld cfg fp res -> fp_inv Ld cfg fp' res' ->
  (forall p, In p fp <-> In p fp') -> (forall s, In s res <-> In s res') ->
  match fold_left (pstep Ld cfg q) found (Ok (fp, res)), fold_left (pstep Ld cfg q) found' (Ok (fp', res')) with
  | Ok (a, b), Ok (a', b') =>
      fp_inv Ld cfg a b /\ fp_inv Ld cfg a' b' /\ (forall p, In p a <-> In p a') /\ (forall s, In s b <-> In s b')
  | Raise _, Raise _ => True
  | _, _ => False
  end.
Proof.
  intros Hincl Hnew Hi Hi' Hfp Hres.
  pose proof (inner_spec Ld cfg q found fp res Hi) as S1.
  pose proof (inner_spec Ld cfg q found' fp' res' Hi') as S2.
  assert (Hacc : forall p, (In p found /\ exists x, sid_factory Ld (FromPath p cfg) = Ok x /\ accepts q x = true) <->
                           (In p found' /\ exists x, sid_factory Ld (FromPath p cfg) = Ok x /\ accepts q x = true)).
  { intros p. split; intros (Hp & x & Hx & Ha).
    - split; [apply Hincl; exact Hp | exists x; auto].
    - destruct (in_dec string_dec p found) as [Hin|Hnin]; [split; [exact Hin | exists x; auto]|].
      rewrite (Hnew p Hp Hnin) in Hx. inversion Hx; subst x. rewrite accepts_empty in Ha. discriminate. }
  destruct (fold_left (pstep Ld cfg q) found (Ok (fp, res))) as [[a b]|e];
    destruct (fold_left (pstep Ld cfg q) found' (Ok (fp', res'))) as [[a' b']|e'].
  - destruct S1 as (I1 & I2 & I3 & I4). destruct S2 as (J1 & J2 & J3 & J4).
    split; [exact I1|]. split; [exact J1|]. split.
    + intros p. rewrite I3, J3, Hfp, Hacc. reflexivity.
    + intros s. rewrite I4, J4, Hres. split; (intros [H|(p & x & Hp & Hx & Ha & Hs)]; [left; exact H|right]).
      * exists p, x. split; [apply Hincl; exact Hp | auto].
      * destruct (proj2 (Hacc p) (conj Hp (ex_intro _ x (conj Hx Ha)))) as (Hp' & _). exists p, x. auto.
  - destruct S1 as (_ & I2 & _). destruct S2 as (p & Hp & He).
    destruct (in_dec string_dec p found) as [Hin|Hnin].
    + destruct (I2 p Hin) as (x & Hx). congruence.
    + rewrite (Hnew p Hp Hnin) in He. discriminate.
  - destruct S2 as (_ & J2 & _). destruct S1 as (p & Hp & He).
    destruct (J2 p (Hincl p Hp)) as (x & Hx). congruence.
  - exact I.
Qed.

Definition st_rel (st st' : outcome pstate) : Prop :=
  match st, st' with
  | Ok (sd, fp, res), Ok (sd', fp', res') =>
      sd = sd' /\ fp_inv Ld cfg fp res /\ fp_inv Ld cfg fp' res' /\
      (forall p, In p fp <-> In p fp') /\ (forall s, In s res <-> In s res')
  | Raise _, Raise _ => True
  | _, _ => False
  end.

Lemma ostep_rel st st' q : st_rel st st' -> st_rel (ostep Ld cfg F st q) (ostep Ld cfg F' st' q).
Proof.
  destruct st as [[[sd fp] res]|e], st' as [[[sd' fp'] res']|e']; intros H; simpl in H; try contradiction;
    [|exact I].
  destruct H as (<- & Hi & Hi' & Hfp & Hres). unfold ostep. cbn [bind].
  destruct (sid_path Ld q cfg) as [po|e]; cbn [bind]; [|exact I].
  set (pattern := match po with Some p => p | None => "None" end).
  destruct (existsb _ sd).
  - simpl. auto.
  - destruct (fs_glob F pattern) as [found|] eqn:Eg, (fs_glob F' pattern) as [found'|] eqn:Eg'.
    + pose proof (inner_junk q found found' fp fp' res res' (glob_monotone _ _ _ _ _ Eg Eg' Hsub)) as Hj.
      assert (Hnew : forall p, In p found' -> ~ In p found -> sid_factory Ld (FromPath p cfg) = Ok empty_sid).
      { intros p Hp Hn. destruct (glob_new_paths _ _ _ _ _ Eg Eg' p Hp Hn) as (H1 & H2). apply (Hjunk p H1 H2). }
      specialize (Hj Hnew Hi Hi' Hfp Hres).
      destruct (fold_left (pstep Ld cfg q) found (Ok (fp, res))) as [[a b]|e];
        destruct (fold_left (pstep Ld cfg q) found' (Ok (fp', res'))) as [[a' b']|e']; cbn [bind fst snd];
        try contradiction; [|exact I].
      simpl. destruct Hj as (H1 & H2 & H3 & H4). auto.
    + apply (fs_glob_defined F F') in Eg'. congruence.
    + apply (fs_glob_defined F F') in Eg. congruence.
    + exact I.
Qed.

Lemma ofold_rel : forall qs st st', st_rel st st' ->
  st_rel (fold_left (ostep Ld cfg F) qs st) (fold_left (ostep Ld cfg F') qs st').
Proof.
  induction qs as [|q qs IH]; intros st st' H; [exact H|]. cbn [fold_left]. apply IH. apply ostep_rel. exact H.
Qed.

(** B2: same set of results, and one raises iff the other does *)
Theorem paths_star_junk qs : set_rel (paths_star Ld F cfg qs) (paths_star Ld F' cfg qs).
Proof.
  rewrite !paths_star_unfold.
  assert (H0 : st_rel (Ok ([], [], [])) (Ok ([], [], []))).
  { simpl. split; [reflexivity|]. split; [intros p []|]. split; [intros p []|]. split; intros; reflexivity. }
  pose proof (ofold_rel qs _ _ H0) as H.
  destruct (fold_left (ostep Ld cfg F) qs (Ok ([], [], []))) as [[[sd fp] res]|e];
    destruct (fold_left (ostep Ld cfg F') qs (Ok ([], [], []))) as [[[sd' fp'] res']|e'];
    simpl in H; try contradiction; cbn [bind]; [|exact I].
  simpl. tauto.
Qed.

Corollary paths_star_junk_ok qs r : paths_star Ld F cfg qs = Ok r ->
  exists r', paths_star Ld F' cfg qs = Ok r' /\ forall s, In s r <-> In s r'.
Proof.
  intros H. pose proof (paths_star_junk qs) as Hr. rewrite H in Hr.
  destruct (paths_star Ld F' cfg qs) as [r'|e]; [|contradiction]. exists r'. split; [reflexivity | exact Hr].
Qed.

Corollary paths_star_junk_raise qs :
  (exists e, paths_star Ld F cfg qs = Raise e) <-> (exists e, paths_star Ld F' cfg qs = Raise e).
Proof.
  pose proof (paths_star_junk qs) as Hr.
  destruct (paths_star Ld F cfg qs) as [r|e], (paths_star Ld F' cfg qs) as [r'|e']; simpl in Hr; try contradiction.
  - split; intros (e & He); discriminate.
  - split; intros _; eauto.
Qed.

(* with A4: the ">" answer of the path finder is literally unchanged by junk *)
Corollary sorted_search_junk qs :
  match sorted_search_g Ld (paths_star Ld F cfg) qs, sorted_search_g Ld (paths_star Ld F' cfg) qs with
  | Ok l1, Ok l2 => l1 = l2
  | Raise _, Raise _ => True
  | _, _ => False
  end.
Proof.
  apply set_equal_stars.
  - intros qs0 l1 l2 H1 H2. pose proof (paths_star_junk qs0) as Hr. rewrite H1, H2 in Hr. exact Hr.
  - intros qs0. pose proof (paths_star_junk qs0) as Hr.
    destruct (paths_star Ld F cfg qs0) as [r|e], (paths_star Ld F' cfg qs0) as [r'|e']; simpl in Hr; try contradiction.
    + split; intros _; eauto.
    + split; intros (l & Hl); discriminate.
Qed.

(* the whole search (with or without ">"): same set of results *)
Corollary do_find_junk qs : set_rel (do_find_g Ld (paths_star Ld F cfg) qs) (do_find_g Ld (paths_star Ld F' cfg) qs).
Proof.
  unfold do_find_g. destruct qs as [|q rest]; [simpl; tauto|].
  destruct (existsb _ (q :: rest)).
  - pose proof (sorted_search_junk (q :: rest)) as H.
    destruct (sorted_search_g Ld (paths_star Ld F cfg) (q :: rest)), (sorted_search_g Ld (paths_star Ld F' cfg) (q :: rest));
      simpl; try contradiction; [subst; tauto | exact I].
  - apply paths_star_junk.
Qed.

Corollary find_paths_junk id s : set_rel (ffind Ld F (FPaths id cfg) s) (ffind Ld F' (FPaths id cfg) s).
Proof.
  unfold ffind, find_g. cbn [fstar]. destruct (Sid Ld s) as [x|e]; cbn [bind]; [|exact I].
  match goal with |- set_rel (if ?b then _ else _) _ => destruct b end; [apply do_find_junk|].
  destruct (unfold_search Ld s false false) as [qs|e]; cbn [bind]; [apply do_find_junk | exact I].
Qed.

End B2junk.

(** * paths_star_spec: what a path search returns *)

Section PathsSpec.
Variable Ld : Loaded.
Variable cfg : string.
Variable F : fs.

Definition pattern_of (po : option string) : string := match po with Some p => p | None => "None" end.

(* [s] is the string of the Sid of an existing path matching the glob of [q]'s path pattern,
   of the type of [q], non-empty, whose fields match the fields of [q] *)
Definition hit (q : sid) (s : string) : Prop :=
  exists po path x,
    sid_path Ld q cfg = Ok po /\
    In path (dkeys F) /\ comps_match (split_c "/" (pattern_of po)) (split_c "/" path) = true /\
    sid_factory Ld (FromPath path cfg) = Ok x /\ accepts q x = true /\ s = s_string x.

Lemma accepts_spec q x : accepts q x = true ->
  s_type x = s_type q /\ sid_bool x = true /\
  forall k v, In (k, v) (s_fields q) ->
    let pat := replace ">" "*" v in
    let val := match sid_get x k with Some w => w | None => "None" end in
    fn_match (S (String.length pat + String.length val)) pat val = true.
Proof.
  unfold accepts. intros H. apply andb_true_iff in H. destruct H as (H & H3).
  apply andb_true_iff in H. destruct H as (H1 & H2). apply String.eqb_eq in H1.
  split; [exact H1|]. split; [exact H2|]. intros k v Hkv. rewrite forallb_forall in H3. apply (H3 (k, v) Hkv).
Qed.

Lemma ostep_sound q sd fp res sd' fp' res' :
  fp_inv Ld cfg fp res -> ostep Ld cfg F (Ok (sd, fp, res)) q = Ok (sd', fp', res') ->
  fp_inv Ld cfg fp' res' /\ forall s, In s res' -> In s res \/ hit q s.
Proof.
  intros Hinv. unfold ostep. cbn [bind].
  destruct (sid_path Ld q cfg) as [po|e] eqn:Ep; cbn [bind]; [|discriminate].
  fold (pattern_of po). destruct (existsb _ sd).
  - intros H. inversion H; subst. split; [exact Hinv | auto].
  - destruct (fs_glob F (pattern_of po)) as [found|] eqn:Eg; [|discriminate].
    pose proof (inner_spec Ld cfg q found fp res Hinv) as S1.
    destruct (fold_left (pstep Ld cfg q) found (Ok (fp, res))) as [[a b]|e]; cbn [bind fst snd]; [|discriminate].
    intros H. inversion H; subst. destruct S1 as (I1 & _ & _ & I4). split; [exact I1|].
    intros s Hs. apply I4 in Hs. destruct Hs as [Hs | (p & x & Hp & Hx & Ha & ->)]; [left; exact Hs|].
    right. apply (fs_glob_spec _ _ _ Eg) in Hp. destruct Hp as (Hk & Hm).
    exists po, p, x. repeat split; assumption.
Qed.

Lemma ofold_sound : forall qs sd fp res sd' fp' res',
  fp_inv Ld cfg fp res -> fold_left (ostep Ld cfg F) qs (Ok (sd, fp, res)) = Ok (sd', fp', res') ->
  fp_inv Ld cfg fp' res' /\ forall s, In s res' -> In s res \/ exists q, In q qs /\ hit q s.
Proof.
  induction qs as [|q qs IH]; intros sd fp res sd' fp' res' Hinv H.
  - cbn [fold_left] in H. inversion H; subst. split; [exact Hinv | auto].
  - cbn [fold_left] in H. destruct (ostep Ld cfg F (Ok (sd, fp, res)) q) as [[[sd1 fp1] res1]|e] eqn:E1.
    2:{ rewrite ostep_raise in H. discriminate. }
    destruct (ostep_sound _ _ _ _ _ _ _ Hinv E1) as (Hinv1 & H1).
    destruct (IH _ _ _ _ _ _ Hinv1 H) as (Hinv2 & H2). split; [exact Hinv2|].
    intros s Hs. destruct (H2 s Hs) as [Hs1 | (q' & Hq' & Hh)].
    + destruct (H1 s Hs1) as [Hs0 | Hh]; [left; exact Hs0 | right; exists q; split; [left; reflexivity | exact Hh]].
    + right. exists q'. split; [right; exact Hq' | exact Hh].
Qed.

(** soundness for any list of searches *)
Theorem paths_star_sound qs r : paths_star Ld F cfg qs = Ok r ->
  forall s, In s r -> exists q, In q qs /\ hit q s.
Proof.
  rewrite paths_star_unfold.
  destruct (fold_left (ostep Ld cfg F) qs (Ok ([], [], []))) as [[[sd fp] res]|e] eqn:E; cbn [bind]; [|discriminate].
  intros H s Hs. inversion H; subst r.
  assert (H0 : fp_inv Ld cfg [] []) by (intros p []).
  destruct (ofold_sound _ _ _ _ _ _ _ H0 E) as (_ & H1). destruct (H1 s Hs) as [[] | Hq]. exact Hq.
Qed.

(** full characterisation for one search (the case used by sorted_search_g) *)
Theorem paths_star_spec_one q r : paths_star Ld F cfg [q] = Ok r -> forall s, In s r <-> hit q s.
Proof.
  rewrite paths_star_unfold. cbn [fold_left]. unfold ostep. cbn [bind existsb].
  destruct (sid_path Ld q cfg) as [po|e] eqn:Ep; cbn [bind]; [|discriminate]. fold (pattern_of po).
  destruct (fs_glob F (pattern_of po)) as [found|] eqn:Eg; [|discriminate].
  assert (H0 : fp_inv Ld cfg [] []) by (intros p []).
  pose proof (inner_spec Ld cfg q found [] [] H0) as S1.
  destruct (fold_left (pstep Ld cfg q) found (Ok ([], []))) as [[a b]|e]; cbn [bind fst snd]; [|discriminate].
  intros H s. inversion H; subst r. destruct S1 as (_ & _ & _ & I4). rewrite I4. split.
  - intros [[] | (p & x & Hp & Hx & Ha & ->)]. apply (fs_glob_spec _ _ _ Eg) in Hp. destruct Hp as (Hk & Hm).
    exists po, p, x. repeat split; assumption.
  - intros (po' & p & x & Hpo & Hk & Hm & Hx & Ha & ->). rewrite Ep in Hpo. inversion Hpo; subst po'.
    right. exists p, x. split; [apply (fs_glob_spec _ _ _ Eg); split; assumption|]. repeat split; assumption.
Qed.

(* when a single search raises *)
Theorem paths_star_one_raise q e : paths_star Ld F cfg [q] = Raise e ->
  sid_path Ld q cfg = Raise e \/
  (exists po, sid_path Ld q cfg = Ok po /\ mem_c "[" (pattern_of po) = true /\ e = Unmodelled) \/
  (exists po path, sid_path Ld q cfg = Ok po /\ In path (dkeys F) /\
     comps_match (split_c "/" (pattern_of po)) (split_c "/" path) = true /\
     sid_factory Ld (FromPath path cfg) = Raise e).
Proof.
  rewrite paths_star_unfold. cbn [fold_left]. unfold ostep. cbn [bind existsb].
  destruct (sid_path Ld q cfg) as [po|e0] eqn:Ep; cbn [bind].
  2:{ intros H. inversion H. left. reflexivity. }
  fold (pattern_of po). destruct (fs_glob F (pattern_of po)) as [found|] eqn:Eg.
  - assert (H0 : fp_inv Ld cfg [] []) by (intros p []).
    pose proof (inner_spec Ld cfg q found [] [] H0) as S1.
    destruct (fold_left (pstep Ld cfg q) found (Ok ([], []))) as [[a b]|e1]; cbn [bind fst snd]; [discriminate|].
    intros H. inversion H; subst e1. destruct S1 as (p & Hp & He). right. right.
    apply (fs_glob_spec _ _ _ Eg) in Hp. destruct Hp as (Hk & Hm). exists po, p. repeat split; assumption.
  - intros H. inversion H. right. left. exists po. split; [reflexivity|]. split; [|reflexivity].
    unfold fs_glob in Eg. destruct (mem_c "[" (pattern_of po)); [reflexivity | discriminate].
Qed.

End PathsSpec.
