From Coq Require Import List String.
Example C13_placeholder : True. Proof. exact I. Qed.
Print Assumptions C13_placeholder.
