(** Data layer over the file-system model: WriteToPaths (pathops/write_paths.py), GetFromPaths
    (pathops/getter_paths.py), GetByFinder / Getter / GetFromAll (read/getters), NextGetter (demo plugin),
    and the DataSid methods of sid.py (get_last / get_next / get_new / exists / children / siblings / get_attr). *)
From Coq Require Import List String Ascii Bool Arith.
From Spil Require Import Base.Str Base.Dict Base.Outcome Base.PyPath Regex.Re
  Resolva.Template Resolva.Resolver Conf.ConfUtil Conf.Conf Conf.Routing Sid.Query Sid.Sid
  Search.Unfold Search.FindList Search.Finders FS.Fs.
Import ListNotations.
Local Open Scope string_scope.

(* pathlib (3.12): PurePath.with_name("." + name).with_suffix(suffix) *)
Definition sidecar_path (data_suffix p : string) : string :=
  let name := "." ++ path_name p in
  let stem := match rfind_dot name with
              | Some i => if Nat.ltb 0 i && Nat.ltb i (String.length name - 1) then take i name else name
              | None => name
              end in
  let par := parent_path p in
  (if String.eqb par "/" then "/" else par ++ "/") ++ stem ++ data_suffix.

Inductive encoder := EncStr | EncUri | EncNone | EncLast.      (* EncLast: the last field value (not injective) *)
Definition encode (e : encoder) (x : sid) : option string :=
  match e with
  | EncStr => Some (s_string x)
  | EncUri => Some (uri x)
  | EncNone => None
  | EncLast => last_opt (map snd (s_fields x))
  end.

Definition record := list (string * option string).     (* a mapping; None = python None *)

Section WithEnv.
Variable L : Loaded.
Variable R : Routing.
Let c := l_conf L.

Definition sidecar (p : string) : string := sidecar_path (c_data_suffix c) p.

Definition default_cfg (cfg : string) : string :=
  if sempty cfg then c_default_path_conf c else cfg.

(** ** WriteToPaths *)

(* _write_data: merge with previous data (when the sidecar exists), then write *)
Definition write_data (F : fs) (p : string) (data : dict string) : outcome fs :=
  let dp := sidecar p in
  match fs_get F dp with
  | None => Ok (fs_add F dp (File (CJson data)))
  | Some (File (CJson prev)) => Ok (fs_add F dp (File (CJson (dupdate prev data))))
  | Some (File CEmpty) => Raise JSONDecodeError
  | Some (File CCorrupt) => Raise JSONDecodeError
  | Some Dir => Raise OSError
  | Some Unreadable => Raise OSError
  end.

Definition w_create (F : fs) (cfg : string) (s : string) (data : dict string) : outcome (fs * bool) :=
  do x <- Sid L s;
  do po <- sid_path L x (default_cfg cfg);
  match po with
  | None => Raise SpilException
  | Some p =>
      if fs_exists F p then Raise SpilException else
      (* only leaf Sids are files (a folder name may contain a dot): the repaired D29 *)
      do F1 <- (if truthy (path_suffix p) && is_leaf L x
                then (if rt_touch R then fs_touch F p else Ok F)
                else fs_mkdir_parents F p);
      if negb (fs_exists F1 p) then Ok (F1, false) else
      match data with
      | [] => Ok (F1, true)
      | _ => do F2 <- write_data F1 p data; Ok (F2, true)
      end
  end.

Definition w_update (F : fs) (cfg : string) (s : string) (data : dict string) : outcome (fs * bool) :=
  do x <- Sid L s;
  do po <- sid_path L x (default_cfg cfg);
  match po with
  | None => Raise SpilException
  | Some p =>
      if negb (fs_exists F p) then Raise SpilException else
      do F2 <- write_data F p data; Ok (F2, true)
  end.

(** ** GetFromPaths.get_data *)

Definition load_sidecar (F : fs) (dp : string) : dict string :=
  match fs_get F dp with
  | Some (File (CJson d)) => d
  | _ => []                 (* missing, empty, corrupt, unreadable, a directory: warned, no data *)
  end.

Definition project_record (data : record) (attributes : list string) : record :=
  match attributes with
  | [] => data
  | _ => map (fun k => (k, match dget data k with Some v => v | None => None end)) attributes
  end.

Definition get_data_paths (F : fs) (cfg : string) (x : sid) (attributes : list string) (enc : encoder) : outcome record :=
  do po <- sid_path L x (default_cfg cfg);
  match po with
  | None => Ok []
  | Some p =>
      let data := map (fun kv => (fst kv, Some (snd kv))) (load_sidecar F (sidecar p)) in
      let data' := match encode enc x with
                   | Some e => if truthy e then dset data "sid" (Some e) else data
                   | None => data
                   end in
      Ok (project_record data' attributes)
  end.

(* GetByFinder.get for GetFromPaths: one record per Sid the finder finds, same order *)
Definition get_paths (F : fs) (cfg : string) (search : string) (attributes : list string) (enc : encoder) : outcome (list record) :=
  do found <- ffind L F (FPaths "" (default_cfg cfg)) search;
  mapM (fun s => do x <- Sid L s; get_data_paths F cfg x attributes enc) found.

(* do_get(search_sids) *)
Definition do_get_paths (F : fs) (cfg : string) (searches : list sid) (attributes : list string) (enc : encoder) : outcome (list record) :=
  do found <- do_find_g L (paths_star L F (default_cfg cfg)) searches;
  mapM (fun s => do x <- Sid L s; get_data_paths F cfg x attributes enc) found.

(* GetFromAll.get: the typed searches are grouped by Getter, in order of first appearance, and each group is handed to its
   Getter's do_get (one search over the whole group: a Sid found by several of its typed searches gives ONE record); types
   without getter yield nothing.  The routing builds its Getters once per config (the repaired D30), so the GetFromPaths
   instances are told apart by their path configuration. *)
Fixpoint add_to_getter_group (cfg : string) (q : sid) (groups : list (string * list sid)) : list (string * list sid) :=
  match groups with
  | [] => [(cfg, [q])]
  | (c0, qs) :: rest => if String.eqb c0 cfg then (c0, qs ++ [q])%list :: rest
                        else (c0, qs) :: add_to_getter_group cfg q rest
  end.

Definition group_by_getter (qs : list sid) : list (string * list sid) :=
  fold_left (fun acc q => match getter_for R (s_type q) false with
                          | GPaths cfg => add_to_getter_group cfg q acc
                          | _ => acc
                          end) qs [].

Definition get_all (F : fs) (search : string) (attributes : list string) (enc : encoder) : outcome (list record) :=
  do qs <- unfold_search L search false false;
  concat_mapM (fun g => do_get_paths F (fst g) (snd g) attributes enc) (group_by_getter qs).

(* GetFromAll.get_data(sid) *)
Definition get_data_all (F : fs) (s : string) (attributes : list string) (enc : encoder) : outcome record :=
  do x <- Sid L s;
  match getter_for R (s_type x) false with
  | GPaths cfg => get_data_paths F cfg x attributes enc
  | _ => Ok []
  end.

(** ** FindInAll shortcuts used by DataSid *)

Definition all_find_one (F : fs) (x : sid) : outcome sid :=
  do r <- find_all L R F (s_string x);
  match r with
  | s :: _ => Sid L s
  | [] => Ok empty_sid
  end.

Definition sid_exists (F : fs) (x : sid) : outcome bool :=
  match s_fields x with
  | [] => Ok false
  | _ => do r <- find_all L R F (s_string x);
         Ok (match r with s :: _ => truthy s | [] => false end)
  end.

Definition get_with_kv (x : sid) (k v : string) : outcome sid := get_with_kw L x [(k, Some v)].

Definition get_last (F : fs) (x : sid) (key : option string) : outcome sid :=
  match s_fields x with
  | [] => Ok empty_sid
  | _ =>
      let k := match key with Some k => if sempty k then keytype x else Some k | None => keytype x end in
      match k with
      | None => Ok empty_sid
      | Some k =>
          do q <- get_with_kv x k ">";
          do found <- all_find_one F q;
          Ok (match sid_get found k with Some v => if truthy v then found else empty_sid | None => empty_sid end)
      end
  end.

(** ** NextGetter (demo plugin): "v" + 3 digits *)

Fixpoint parse_nat_aux (s : string) (acc : nat) : option nat :=
  match s with
  | "" => Some acc
  | String a r => if is_digit a then parse_nat_aux r (10 * acc + (nat_of_ascii a - 48)) else None
  end.
(* python int(): optional surrounding whitespace / sign / underscores are not modelled: digits only *)
Definition py_int (s : string) : option nat := if sempty s then None else parse_nat_aux s 0.

Fixpoint nat_to_dec_aux (fuel n : nat) (acc : string) : string :=
  match fuel with
  | O => acc
  | S f => let acc' := String (ascii_of_nat (48 + n mod 10)) acc in
           if Nat.ltb n 10 then acc' else nat_to_dec_aux f (n / 10) acc'
  end.
Definition nat_to_dec (n : nat) : string := nat_to_dec_aux (S n) n "".
Definition pad_left (w : nat) (s : string) : string := repeat_s "0" (w - String.length s) ++ s.
Definition fmt_03d (n : nat) : string := pad_left 3 (nat_to_dec n).

Definition last_v_part (s : string) : string := last (split_c "v" s) "".

Definition next_version (F : fs) (x0 : sid) : outcome sid :=
  do x <- sid_factory L (FromSid x0);
  do vtxt <- (match sid_get x "version" with
              | Some cur =>
                  if truthy cur then
                    if String.eqb cur "*" || String.eqb cur ">" then
                      do lst <- get_last F x (Some "version");
                      let lv := match sid_get lst "version" with Some v => if truthy v then v else "v000" | None => "v000" end in
                      let t := last_v_part lv in
                      Ok (if sempty t then "0" else t)
                    else Ok (last_v_part cur)
                  else Ok "0"
              | None => Ok "0"
              end);
  match py_int vtxt with
  | None => Raise ValueError
  | Some n =>
      do r <- get_with_kw L x [("version", Some ("v" ++ fmt_03d (S n)))];
      Ok (if sid_bool r then r else empty_sid)
  end.

Definition get_next (F : fs) (x : sid) (key : string) : outcome sid :=
  if negb (String.eqb key "version") then Raise NotImplementedError else
  match getter_for R (s_type x) true with
  | GNext => next_version F x
  | _ => Raise Unmodelled
  end.

Definition or_empty (x : sid) : sid := if sid_bool x then x else empty_sid.

Definition get_new (F : fs) (x : sid) (key : string) : outcome sid :=
  match sid_get x key with
  | Some v =>
      if truthy v then
        do lst <- get_last F x (Some key);
        if sid_bool lst then (do lst2 <- get_last F x (Some key); do r <- get_next F lst2 key; Ok (or_empty r))
        else (do y <- get_with_kv x key "*"; do r <- get_next F y key; Ok (or_empty r))
      else
        do y <- get_with_kv x key "*"; do w <- get_last F y (Some key);
        if sid_bool w then (do r <- get_next F w key; Ok (or_empty r))
        else (do r <- get_next F x key; Ok (or_empty r))
  | None =>
      do y <- get_with_kv x key "*"; do w <- get_last F y (Some key);
      if sid_bool w then (do r <- get_next F w key; Ok (or_empty r))
      else (do r <- get_next F x key; Ok (or_empty r))
  end.

Definition siblings_as (F : fs) (x : sid) (key : string) : outcome (list string) :=
  if negb (dmem (s_fields x) key) then Ok [] else
  do a <- get_as L x key;
  do q <- get_with_kv a key "*";
  find_all L R F (s_string q).

Definition siblings (F : fs) (x : sid) : outcome (list string) :=
  match keytype x with
  | Some k => siblings_as F x k
  | None => Ok []
  end.

Definition children (F : fs) (x : sid) : outcome (list string) :=
  if is_leaf L x then Ok [] else
  do q <- sid_div L x "*";
  find_all L R F (s_string q).

Definition get_attr (F : fs) (x : sid) (attribute : string) : outcome (option string) :=
  if String.eqb attribute "next.version" then Raise Unmodelled else
  match getter_for R (s_type x) false with
  | GPaths cfg =>
      do rec <- get_data_paths F cfg x [] EncStr;
      Ok (match dget rec attribute with Some v => v | None => None end)
  | _ => Ok None
  end.

End WithEnv.
