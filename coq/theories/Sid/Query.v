(** Model of spil/sid/core/query_helper.py: to_dict, to_string, update
    (and the urllib.parse fragment they use: urlsplit, parse_qsl, unquote, urlencode). *)
From Coq Require Import List String Ascii Bool Arith.
From Spil Require Import Base.Str Base.Dict Base.Outcome.
Import ListNotations.
Local Open Scope string_scope.

Definition hexval (a : ascii) : option nat :=
  let n := nat_of_ascii a in
  if is_digit a then Some (n - 48)
  else if Nat.leb 65 n && Nat.leb n 70 then Some (n - 55)
  else if Nat.leb 97 n && Nat.leb n 102 then Some (n - 87)
  else None.

(* urllib.parse.unquote, for escapes below %80; an escape >= %80 is outside the model *)
Fixpoint unquote (s : string) : outcome string :=
  match s with
  | "" => Ok ""
  | String "%" (String h (String l rest) as s') =>
      match hexval h, hexval l with
      | Some a, Some b =>
          let v := 16 * a + b in
          if Nat.leb 128 v then Raise Unmodelled
          else do r <- unquote rest; Ok (String (ascii_of_nat v) r)
      | _, _ => do r <- unquote s'; Ok (String "%" r)
      end
  | String a s' => do r <- unquote s'; Ok (String a r)
  end.

Fixpoint remove_chars (f : ascii -> bool) (s : string) : string :=
  match s with
  | "" => ""
  | String a s' => if f a then remove_chars f s' else String a (remove_chars f s')
  end.

Definition unsafe_url_char (a : ascii) : bool :=
  Ascii.eqb a "009" || Ascii.eqb a "010" || Ascii.eqb a "013".

(* urlsplit("?" + q).query *)
Definition urlsplit_query (q : string) : string :=
  let u := remove_chars unsafe_url_char q in
  fst (split1_c "#" u).

Definition plus_to_space (s : string) : string := replace "+" " " s.

Fixpoint parse_qsl_items (items : list string) : outcome (list (string * string)) :=
  match items with
  | [] => Ok []
  | it :: rest =>
      do r <- parse_qsl_items rest;
      if sempty it then Ok r else
      match split1_c "=" it with
      | (_, None) => Ok r
      | (n, Some v) =>
          if sempty v then Ok r else
          do n' <- unquote (plus_to_space n);
          do v' <- unquote (plus_to_space v);
          Ok ((n', v') :: r)
      end
  end.

Definition parse_qsl (qs : string) : outcome (list (string * string)) :=
  if sempty qs then Ok [] else parse_qsl_items (split_c "&" qs).

Definition strip_one_amp (s : string) : string :=
  let s1 := match s with String "&" r => r | _ => s end in
  if endswith "&" s1 then drop_last 1 s1 else s1.

Definition to_dict (query_string : string) : outcome (dict string) :=
  let q := strip_one_amp (replace "?" "&" query_string) in
  do pairs <- parse_qsl (urlsplit_query q);
  Ok (dict_of_pairs pairs).

Definition q_encode (x : string) : string := replace " " "" x.

Definition to_string (d : dict string) : string :=
  join "&" (map (fun kv => q_encode (fst kv) ++ "=" ++ q_encode (snd kv)) d).

Definition option_prefix : string := "~".

Definition update (data : dict string) (query : string) : outcome (dict string) :=
  do new_data <- to_dict query;
  Ok (fold_left
        (fun d kv =>
           let key := fst kv in
           let value := snd kv in
           let optional := startswith option_prefix value in
           let value' := if optional then replace option_prefix "" value else value in
           if dmem d key || negb optional then dset d key value' else d)
        new_data data).
