(** C15: "an entity exists exactly from the moment it or a descendant was created", as an invariant over
    histories of [w_create]: definitions and guards (proofs: Data/CreateFs.v, Data/CreateProofs.v;
    instances: gen/CreateExamples.v). *)
From Coq Require Import List String Ascii Bool Arith.
From Spil Require Import Base.Str Base.Dict Base.Outcome Base.PyPath Regex.Re
  Resolva.Template Resolva.Resolver Conf.ConfUtil Conf.Conf Conf.WF Conf.Routing Sid.Query Sid.Sid Sid.TypingSpec
  Sid.SidProofs Path.UnambiguousDefs FS.Fs Search.Finders Search.TreeListDefs Data.Data.
Import ListNotations.
Local Open Scope string_scope.

(** ** Directories above a path *)

(* every proper ancestor directory of p, outermost first ("/" included for an absolute path) *)
Definition proper_dirs (p : string) : list string := ancestors_and_self (parent_path p).

Definition abs_path (p : string) : bool := startswith "/" p.

(** ** The file tree: the root is there, and with a path all the directories above it *)

Definition fs_inv (F : fs) : Prop :=
  In "/" (dkeys F) /\ forall q a, In q (dkeys F) -> In a (ancestors_and_self q) -> In a (dkeys F).

Definition fs_invb (F : fs) : bool :=
  in_list "/" (dkeys F) && forallb (fun q => forallb (fun a => in_list a (dkeys F)) (ancestors_and_self q)) (dkeys F).

(* the tree before anything is created: the root directory alone *)
Definition fs_root : fs := [("/", Dir)].

(** ** The Sids that the directories above a path resolve to *)

(* the non-empty Sid that Sid(path=a) is, if any *)
Definition dir_sid (Ld : Loaded) (cfg a : string) : list sid :=
  match sid_factory Ld (FromPath a cfg) with
  | Ok y => if sid_bool y then [y] else []
  | Raise _ => []
  end.

Definition dir_sids (Ld : Loaded) (cfg p : string) : list sid := flat_map (dir_sid Ld cfg) (proper_dirs p).

(** ** The guard on a created Sid, computed *)

(* naturally typed, concrete, good values *)
Definition good_sidb (Ld : Loaded) (x : sid) : bool := nat_typedb Ld x && concreteb Ld x && path_values_okb x.

Definition outcome_is (o : outcome sid) (y : sid) : bool :=
  match o with Ok z => sid_eqb_full z y | Raise _ => false end.

Definition path_is (Ld : Loaded) (cfg : string) (y : sid) (a : string) : bool :=
  match sid_path Ld y cfg with Ok (Some q) => String.eqb q a | _ => false end.

(* "path templates mirror the Sid templates", at x, downwards: a directory a above the path of x resolves
   to the empty Sid (a literal folder: "PROD", "OUTPUT", what is above the project) or to a good Sid whose
   path is a and which is a prefix Sid [get_as x k] of x *)
Definition dir_okb (Ld : Loaded) (cfg : string) (x : sid) (a : string) : bool :=
  forallb (fun y => good_sidb Ld y && no_hiddenb a && path_is Ld cfg y a
                    && existsb (fun k => outcome_is (get_as Ld x k) y) (dkeys (s_fields x)))
          (dir_sid Ld cfg a).

(* ... and upwards: a prefix Sid of x that has a path is x or one of those *)
Definition anc_backedb (Ld : Loaded) (cfg : string) (x : sid) (p : string) : bool :=
  forallb (fun k => match get_as Ld x k with
                    | Ok y => match sid_path Ld y cfg with
                              | Ok (Some _) => existsb (sid_eqb_full y) (x :: dir_sids Ld cfg p)
                              | _ => true
                              end
                    | Raise _ => true
                    end) (dkeys (s_fields x)).

Definition create_guardb (Ld : Loaded) (cfg : string) (x : sid) : bool :=
  match sid_path Ld x cfg with
  | Ok (Some p) =>
      good_sidb Ld x && abs_path p && no_hiddenb p
      && forallb (dir_okb Ld cfg x) (proper_dirs p) && anc_backedb Ld cfg x p
  | _ => false
  end.

(* the same as a hypothesis on the configuration: the guard holds at every good Sid with an absolute,
   not hidden path *)
Definition mirror (Ld : Loaded) (cfg : string) : Prop :=
  forall x p, good_sidb Ld x = true -> sid_path Ld x cfg = Ok (Some p) ->
    abs_path p = true -> no_hiddenb p = true ->
    forallb (dir_okb Ld cfg x) (proper_dirs p) = true /\ anc_backedb Ld cfg x p = true.

(** ** What a successful creation adds to the data set: the Sid and the Sids of the directories above *)

Definition added (Ld : Loaded) (cfg : string) (x : sid) : list sid :=
  match sid_path Ld x cfg with
  | Ok (Some p) => x :: dir_sids Ld cfg p
  | _ => []
  end.

(* x or a prefix Sid of x that has a path *)
Definition anc_with_path (Ld : Loaded) (cfg : string) (x e : sid) : Prop :=
  e = x \/ exists k pe, get_as Ld x k = Ok e /\ sid_path Ld e cfg = Ok (Some pe).

(** ** Histories of creations (without data) *)

Section Hist.
Variables (Ld : Loaded) (Rt : Routing) (cfg : string).

(* one create(): a failed one (an exception) leaves the tree as it is *)
Definition create_step (F : fs) (s : string) : fs :=
  match w_create Ld Rt F cfg s [] with
  | Ok (F', _) => F'
  | Raise _ => F
  end.

Definition run_creates (F : fs) (ss : list string) : fs := fold_left create_step ss F.

Definition create_done (F : fs) (s : string) : bool :=
  match w_create Ld Rt F cfg s [] with
  | Ok (_, b) => b
  | Raise _ => false
  end.

(* the Sid strings whose create() returned True, in order *)
Fixpoint created (F : fs) (ss : list string) : list string :=
  match ss with
  | [] => []
  | s :: r => (if create_done F s then [s] else []) ++ created (create_step F s) r
  end.

(* the created Sids and the Sids of the directories above them *)
Definition closure (l : list string) : list sid :=
  flat_map (fun s => match Sid Ld s with Ok x => added Ld (default_cfg Ld cfg) x | Raise _ => [] end) l.

(* the guard on a history: every string that is a Sid with a path passes [create_guardb]
   (the others are not created: create() raises) *)
Definition hist_okb (ss : list string) : bool :=
  forallb (fun s => match Sid Ld s with
                    | Ok x => match sid_path Ld x (default_cfg Ld cfg) with
                              | Ok (Some _) => create_guardb Ld (default_cfg Ld cfg) x
                              | _ => true
                              end
                    | Raise _ => true
                    end) ss.

End Hist.
