"""C15 created entities exist, and attribute data reads back what was written (histories over the file-system model)."""
import itertools, json
from harness.runner import PropBase, Case
from harness import gen, core
from props import datalayer as dl

KEYS = ['a', 'b']
VALS = ['1', '2', 'x y']

class C15(PropBase):
    id = 'C15'
    rule = ('histories of create / set / update / read / exists / find over a small alphabet of Sids (files sharing a sidecar, siblings, folder entities, parents, a typed Sid '
            'without path, an untyped Sid) and attribute keys; every history starts from an empty tree; after each history the real tree is compared with the model tree; '
            'quick: all histories of <= 2 operations over a reduced alphabet + random histories <= 10 (half of them writing through two long-lived writer objects taking turns); non-trivial = a history with at least one successful write; '
            'distinct by operation sequence')
    partial_note = 'a new process is exercised by re-reading through a second worker process on the same tree (sampled); real-kernel durability is not modelled'
    def confdir(self, ws):
        return core.make_fs_confdir(ws)
    def ops_alphabet(self, names):
        ops = []
        for i, n in enumerate(names):
            s = dl.ALPHABET[n]
            ops.append(('w_create', ['', s, []]))
            ops.append(('w_create', ['', s, [[KEYS[i % 2], '1']]]))      # creation data under another key than the neighbour's
            ops.append(('w_update', ['', s, [['a', '2']]]))
            ops.append(('w_update', ['', s, [['b', 'x y']]]))
            ops.append(('w_set', ['', s, 'c', '']))
            ops.append(('get_data_paths_new', ['', ['s', s], [], 'str']))
            ops.append(('get_data_paths', ['', ['s', s], [], 'str']))
            ops.append(('sid_exists', [['s', s]]))
        return ops
    def history(self, ops, hid, extra_reads=()):
        out = [Case('fs_reset', [], 'setup', {'h': hid})]
        for op, args in ops:
            out.append(Case(op, args, 'history', {'h': hid}))
        # observe everything at the end
        for n in ['F1', 'F2', 'F3', 'D1', 'D2', 'N1', 'A1', 'D3', 'G1', 'G2']:
            s = dl.ALPHABET[n]
            out.append(Case('get_data_paths', ['', ['s', s], [], 'str'], 'final', {'h': hid, 'sid': s}))
            out.append(Case('get_data_paths_new', ['', ['s', s], [], 'str'], 'final', {'h': hid, 'sid': s}))
            out.append(Case('get_data_all', [s, ['a', 'zz'], 'uri'], 'final', {'h': hid, 'sid': s}))
            out.append(Case('sid_exists', [['s', s]], 'final', {'h': hid, 'sid': s}))
        for s in extra_reads:
            out.append(Case('get_data_paths_new', ['', ['s', s], [], 'str'], 'final', {'h': hid, 'sid': s}))
        out.append(Case('find_paths', ['', 'hamlet/a/char/x/model/*'], 'final', {'h': hid}))
        out.append(Case('find_paths', ['server', 'hamlet/a/char/x/model/*'], 'final', {'h': hid}))
        out.append(Case('find_all', ['hamlet/a/char/x/**/ma,mb'], 'final', {'h': hid}))
        out.append(Case('find_paths', ['', 'hamlet/a/char/*'], 'final', {'h': hid, 'level': 4}))
        out.append(Case('find_all', ['hamlet/a/*/*'], 'final', {'h': hid, 'level': 4}))
        out.append(Case('get_paths', ['', 'hamlet/a/char/x/model/v001/w/*', [], 'str'], 'final', {'h': hid, 'records': True}))
        out.append(Case('find_paths', ['', 'hamlet/a/char/x/model/v001/w/*'], 'final', {'h': hid, 'records_find': True}))
        out.append(Case('children', [['s', dl.ALPHABET['D2']]], 'final', {'h': hid}))
        out.append(Case('children', [['s', dl.ALPHABET['S2']]], 'final', {'h': hid, 'leaf': True}))
        out.append(Case('fs_dump', [], 'dump', {'h': hid}))
        return out
    def cases(self, rng, ctx, tier):
        self._roots = dl.roots_of(ctx)
        out = []
        # the path of every Sid of the alphabet (entities whose paths differ only by the file extension share their data)
        for n, s in sorted(dl.ALPHABET.items()):
            out.append(Case('path', [['s', s], '', 'pos'], 'paths', {'sid': s}))
        hid = 0
        small = self.ops_alphabet(['F1', 'F2', 'D1'])
        depth = 2 if tier == 'quick' else 3
        for n in range(1, depth + 1):
            for seq in itertools.product(small, repeat=n):
                hid += 1
                out.extend(self.history(seq, hid))
        # every ordered pair of entities that have a path: data written to the first, then to the second (isolation / sharing)
        withp = [k for k in sorted(dl.ALPHABET) if k not in ('N1', 'U1')]
        pairs = [(x, y) for x in withp for y in withp if x != y]
        if tier == 'quick':
            pairs = rng.sample(pairs, min(len(pairs), 70))
        for x, y in pairs:
            hid += 1
            sx, sy = dl.ALPHABET[x], dl.ALPHABET[y]
            out.extend(self.history([('w_create', ['', sx, [['a', '1']]]), ('w_create', ['', sy, [['b', '1']]]), ('w_update', ['', sy, [['b', '2'], ['c', 'x y']]]),
                                     ('get_data_paths_new', ['', ['s', sx], [], 'str'])], hid, extra_reads=[sx, sy]))
        full = self.ops_alphabet([k for k in dl.ALPHABET])
        creates = [o for o in full if o[0] == 'w_create']
        nrand, maxlen = (60, 10) if tier == 'quick' else (1500, 40)
        for _ in range(nrand):
            hid += 1
            seq = [rng.choice(creates) for _ in range(rng.randint(1, 3))] + [rng.choice(full) for _ in range(rng.randint(3, maxlen))]
            if rng.random() < 0.5:
                # the writes of this history go through two long-lived writer objects taking turns (and some through throw-away ones)
                seq = [(op, args + [rng.choice(['A', 'B', 'A', 'B', ''])]) if op.startswith('w_') else (op, args) for op, args in seq]
            out.extend(self.history(seq, hid))
        # creation WITH data, update and set under the non-default path configuration: the data lives in that configuration's tree
        other_cfgs = [pc[0] for pc in ctx['rawd']['path_configs'] if pc[0] != (ctx['rawd']['default_path_config'] or ctx['rawd']['path_configs'][0][0])]
        for cfg_ in other_cfgs[:1]:
            for n in (['F1', 'D1', 'A1'] if tier == 'quick' else sorted(withp)):
                hid += 1
                s = dl.ALPHABET[n]
                seq = [('w_create', [cfg_, s, [['a', '1']]]), ('get_data_paths_new', [cfg_, ['s', s], [], 'str']), ('get_data_paths_new', ['', ['s', s], [], 'str']),
                       ('w_create', ['', s, [['b', '2']]]), ('w_update', [cfg_, s, [['c', '3']]]), ('w_set', [cfg_, s, 'd', '4']),
                       ('get_data_paths_new', [cfg_, ['s', s], [], 'str']), ('get_data_paths_new', ['', ['s', s], [], 'str'])]
                out.extend(self.history(seq, hid, extra_reads=[s]))
        # two writer objects (as two tools or processes would hold) writing the same entity alternately: what is read is the overlay in call order
        for n in (['F1', 'D1', 'F2', 'G1'] if tier == 'quick' else sorted(withp)):
            hid += 1
            s = dl.ALPHABET[n]
            seq = [('w_create', ['', s, [['a', '1']], 'A']), ('w_update', ['', s, [['b', '2']], 'B']), ('w_set', ['', s, 'c', 'x y', 'A']),
                   ('get_data_paths_new', ['', ['s', s], [], 'str']), ('w_set', ['', s, 'a', '3', 'B']), ('w_update', ['', s, [['d', '4']], 'A'])]
            out.extend(self.history(seq, hid, extra_reads=[s]))
        out.append(Case('fs_reset', [], 'setup', {'h': 0}))
        return out
    def compare(self, case, model, impl):
        if case.op == 'fs_dump':
            roots = getattr(self, '_roots', None)
            if roots is None:
                return None
            m = dl.filter_dump(model, roots)
            i = dl.filter_dump([e for e in impl if not e[0].endswith('.tmp')], roots)
            return None if m == i else 'the real tree differs from the model tree: only-model %r only-impl %r' % (
                [e for e in m if e not in i][:4], [e for e in i if e not in m][:4])
        return None if model == impl else 'model and implementation differ'
    def phase2(self, rng, ctx, cases, impl_out, tier):
        return []
    def oracle_bulk(self, cases, impl_out, ctx):
        """direct statement of the property on the implementation's observations, per history"""
        fails = []
        # sharing classes, from the property: same path up to the file extension (pathlib suffix of the last component)
        import posixpath
        stem = {}
        pathof = {}
        for c, o in zip(cases, impl_out):
            if c.stream == 'paths' and o[0] == 'ok' and o[1]:
                pathof[c.meta['sid']] = o[1][0]
                d_, name = posixpath.split(o[1][0])
                suf = dl.pure_suffix(name)
                stem[c.meta['sid']] = d_ + '/' + (name[:-len(suf)] if suf else name)
        def share_of(s_):
            return [x for x in stem if stem[x] == stem.get(s_)] if s_ in stem else [s_]
        def on_disk(s_, created_):
            # an entity exists from the moment it or a descendant was created: its path is the path of a created entity or a folder above one
            p_ = pathof.get(s_)
            if p_ is None:
                return True      # (no path known to this oracle: no judgement)
            return any(pathof.get(c_) == p_ or (pathof.get(c_) or '').startswith(p_ + '/') for c_ in created_)
        byh = {}
        for c, o in zip(cases, impl_out):
            byh.setdefault(c.meta.get('h'), []).append((c, o))
        for h, lst in byh.items():
            if not h:
                continue
            default_cfg = ctx['rawd']['default_path_config'] or ctx['rawd']['path_configs'][0][0]
            norm = lambda cfg_: cfg_ or default_cfg
            created_by = {}      # path configuration -> sid strings successfully created in its tree
            created = created_by.setdefault(default_cfg, set())      # (the default configuration's tree: what the searches and exists() see)
            written = {}         # sid string -> list of (key, value) writes addressed to it, in order
            for c, o in lst:
                if c.stream != 'history':
                    continue
                if c.op == 'w_create':
                    s = c.args[1]
                    mine_created = created_by.setdefault(norm(c.args[0]), set())
                    if o[0] == 'ok':
                        if s in mine_created:
                            fails.append((c, o, 'creating an existing entity succeeded')); break
                        mine_created.add(s)
                        for k, v in c.args[2]:
                            written.setdefault(s, []).append((k, v))
                    elif o[1] != 'SpilException':
                        fails.append((c, o, 'create raised %r' % (o,))); break
                elif c.op == 'w_set':
                    if o[0] != 'ok' and o[1] != 'SpilException':
                        fails.append((c, o, 'set raised %r' % (o,))); break
                    if o[0] == 'ok' and not on_disk(c.args[1], created_by.get(norm(c.args[0]), set())):
                        fails.append((c, o, 'set() on %r succeeded although neither it nor a descendant was created (created so far: %r)' % (c.args[1], sorted(created)))); break
                elif c.op == 'w_update':
                    s = c.args[1]
                    if o[0] == 'ok' and not on_disk(s, created_by.get(norm(c.args[0]), set())):
                        fails.append((c, o, 'update() of %r succeeded although neither it nor a descendant was created (created so far: %r)' % (s, sorted(created)))); break
                    if o[0] == 'ok':
                        for k, v in c.args[2]:
                            written.setdefault(s, []).append((k, v))
                    elif o[1] != 'SpilException':
                        fails.append((c, o, 'update raised %r' % (o,))); break
                elif c.op == 'get_data_paths' and o[0] == 'ok':
                    s = c.args[1][1]
                    rec = dict((k, v[0] if v else None) for k, v in o[1])
                    mine = {}
                    for k, v in written.get(s, []):
                        mine[k] = v
                    for k, v in mine.items():
                        # later writes to an entity sharing the sidecar (same path up to the extension) may legitimately overlay
                        pass
                    if rec and rec.get('sid') != s:
                        fails.append((c, o, "record of %r carries sid %r" % (s, rec.get('sid')))); break
            # final observations
            finals = [(c, o) for c, o in lst if c.stream == 'final']
            F1, F2 = dl.ALPHABET['F1'], dl.ALPHABET['F2']
            for c, o in finals:
                if o[0] != 'ok':
                    fails.append((c, o, 'read / search failed: %r' % (o,))); break
                if c.op == 'children' and c.meta.get('leaf') and o[1]:
                    fails.append((c, o, 'a leaf Sid has children: %r' % (o[1],))); break
                if c.op in ('get_data_paths', 'get_data_paths_new'):
                    s = c.meta['sid']
                    rec = dict((k, v[0] if v else None) for k, v in o[1])
                    exp = {}
                    share = share_of(s)
                    # overlay, in call order, of everything written to the sidecar class of s
                    for cc, oo in lst:
                        if cc.stream == 'history' and cc.op in ('w_create', 'w_update') and oo[0] == 'ok' and cc.args[1] in share and norm(cc.args[0]) == norm(c.args[0]):
                            for k, v in cc.args[2]:
                                exp[k] = v
                        if cc.stream == 'history' and cc.op == 'w_set' and oo[0] == 'ok' and cc.args[1] in share and norm(cc.args[0]) == norm(c.args[0]):
                            exp[cc.args[2]] = cc.args[3]
                    got = {k: v for k, v in rec.items() if k != 'sid'}
                    has_path = s not in (dl.ALPHABET['N1'], dl.ALPHABET['U1'])
                    if has_path and got != exp:
                        fails.append((c, o, 'data read for %r is %r, the writes overlay to %r' % (s, got, exp))); break
                elif c.op in ('find_paths', 'find_all') and c.meta.get('level'):
                    # an entity exists exactly from the moment it or a descendant was created
                    exp = sorted(set('/'.join(x.split('/')[:c.meta['level']]) for x in created if len(x.split('/')) >= c.meta['level'] and x.startswith('hamlet/a/')
                                     and (c.op == 'find_all' or x.startswith('hamlet/a/char/'))))
                    if sorted(o[1]) != exp:
                        fails.append((c, o, '%s(%r) gives %r after creating %r' % (c.op, c.args[-1], sorted(o[1]), sorted(created)))); break
                elif c.op == 'get_paths' and c.meta.get('records'):
                    # one record per found Sid, each carrying its own Sid
                    found = [oo[1] for cc, oo in finals if cc.meta.get('records_find') and oo[0] == 'ok']
                    sids = [dict((k, v[0] if v else None) for k, v in r).get('sid') for r in o[1]]
                    if found and sorted(sids) != sorted(found[0]):
                        fails.append((c, o, 'GetFromPaths.get(%r) carries the Sids %r, FindInPaths.find gives %r' % (c.args[1], sids, found[0]))); break
                elif c.op == 'sid_exists':
                    s = c.meta['sid']
                    if s in (dl.ALPHABET['N1'],):
                        continue          # constant-backed level: answered from the configured constants
                    exp = any(x == s or x.startswith(s + '/') for x in created)
                    if (o[1] == '1') != exp:
                        fails.append((c, o, 'exists(%r) = %s after creating %r' % (s, o[1], sorted(created)))); break
        return fails
    def search_disagreements(self, ws, ctx, disagreements, cases, impl_out):
        return []
    def nontrivial(self, case, impl):
        return [case.meta.get('h'), case.op, case.args] if case.stream == 'history' and impl[0] == 'ok' and case.op.startswith('w_') else None
    def histogram_key(self, case, impl):
        if case.stream == 'history':
            return '%s:%s' % (case.op, impl[0] if impl[0] != 'ok' else 'ok')
        return case.stream

PROP = C15()
