(** C10 / C11 for the third finder, FindInAll: definitions and guards (proofs in Search/AlgebraAllProofs.v).

    [find_all Ld Rt F s] (Search/Finders.v) ALWAYS unfolds the search string ([unfold_search Ld s false false]),
    groups the typed searches by the finder the routing table gives for their type, and runs [do_find] of every
    finder on its group.  [Finder.find] of FindInPaths ([ffind Ld F (FPaths id cfg) s]) first tries the Sid itself
    ([find_searches Ld s] of Search/LastAgreeProofs.v: the typed non-search Sid when the shortcut is taken, else the
    unfolding).  So the guards of FindInAll are asked of the UNFOLDED list, whatever the shortcut does. *)
From Coq Require Import List String Ascii Bool Arith.
From Spil Require Import Base.Str Base.Dict Base.Outcome Base.PyPath Regex.Re
  Resolva.Template Resolva.Resolver Conf.ConfUtil Conf.Conf Conf.WF Conf.Routing Sid.Query Sid.Sid Sid.TypingSpec
  Sid.SidProofs Path.UnambiguousDefs FS.Fs
  Search.Unfold Search.FindList Search.GlobProofs Search.UnfoldSpec Search.Finders
  Search.TreeListDefs Search.TreeListProofs Data.SidLevelDefs Search.LastAgreeProofs Search.AlgebraDefs
  Search.AlgebraTreeDefs.
Import ListNotations.
Local Open Scope string_scope.

(** ** 1. The routing hypothesis *)

(* every typed search of the unfolding of s is routed to the path finder [FPaths id cfg]
   (universally quantified: no claim that the unfolding succeeds) *)
Definition all_routed (Ld : Loaded) (Rt : Routing) (id cfg : string) (s : string) : Prop :=
  forall qs, unfold_search Ld s false false = Ok qs -> routed_to Rt (FPaths id cfg) qs.

Definition all_routedb (Ld : Loaded) (Rt : Routing) (id cfg : string) (s : string) : bool :=
  match unfold_search Ld s false false with
  | Ok qs => routed_tob Rt id cfg qs
  | Raise _ => false
  end.

(** ** 2. FindInAll and FindInPaths are given the same typed searches *)

(* what [Finder.find] hands to [do_find] is the unfolding that FindInAll runs.  Holds whenever the shortcut is
   not taken and the Sid factory accepts the string ([same_searches_unfolded]); when the shortcut IS taken
   (a typed non-search Sid) it says that the Sid unfolds to itself *)
Definition same_searches (Ld : Loaded) (s : string) : Prop :=
  find_searches Ld s = unfold_search Ld s false false.

(** ** 3. The guard of a search string for FindInAll over a data set *)

(* the guard of the tree finder ([tree_guard] of Search/AlgebraTreeDefs.v), asked of the unfolding, plus the
   routing of every typed search to the path finder *)
Definition all_guard (Ld : Loaded) (Rt : Routing) (id cfg : string) (E : list sid) (s : string) : Prop :=
  forall qs, unfold_search Ld s false false = Ok qs ->
    routed_to Rt (FPaths id cfg) qs /\ searches_ok Ld cfg qs /\ pat_inj Ld cfg qs /\ types_covered E qs.

(* the part that does not mention the data set *)
Definition all_guard0 (Ld : Loaded) (Rt : Routing) (id cfg : string) (s : string) : Prop :=
  forall qs, unfold_search Ld s false false = Ok qs ->
    routed_to Rt (FPaths id cfg) qs /\ searches_ok Ld cfg qs /\ pat_inj Ld cfg qs.

(* decidable reading: unfold and check *)
Definition all_guardb (Ld : Loaded) (Rt : Routing) (id cfg : string) (E : list sid) (s : string) : bool :=
  match unfold_search Ld s false false with
  | Ok qs => routed_tob Rt id cfg qs
             && forallb (fun q => typed_searchb Ld q && search_okb Ld cfg q) qs
             && pat_injb Ld cfg qs && types_coveredb E qs
  | Raise _ => false
  end.

Definition all_guard0b (Ld : Loaded) (Rt : Routing) (id cfg : string) (s : string) : bool :=
  match unfold_search Ld s false false with
  | Ok qs => routed_tob Rt id cfg qs
             && forallb (fun q => typed_searchb Ld q && search_okb Ld cfg q) qs
             && pat_injb Ld cfg qs
  | Raise _ => false
  end.

(** ** 4. How two outcomes of a search compare: both raise the same exception, or both succeed and the
      FindInAll answer is the first-occurrence de-duplication of the finder's answer *)
Definition same_outcome (all_res fnd_res : outcome (list string)) : Prop :=
  match fnd_res, all_res with
  | Ok l, Ok l' => l' = dedup_first l /\ (forall e, In e l' <-> In e l) /\ (NoDup l -> l' = l)
  | Raise e, Raise e' => e = e'
  | _, _ => False
  end.
