"""C12 exists / find_one / as_sid agree with find (list-backed part; Sid.exists/children/siblings need the file system: see C15)."""
from harness.runner import PropBase, Case
from harness import gen, core
from props import listsearch as ls
from props.c01 import natural

class C12(PropBase):
    id = 'C12'
    rule = ('universes x searches of the C07 family and concrete sids (existing or not): find (both as_sid), find_one, exists on FindInList; '
            'non-trivial = something found; distinct by (universe, search); and histories over a real tree in one process: Sid.exists / children / siblings of every entity, ancestor and a missing sibling, '
            'asked on the empty tree, after a first batch of creations and after a second one (entities of every type sharing a key sequence, entities whose parent string is a leaf)')
    partial_note = 'levels served by configured constants (no path template) are compared with the model only, not stated in the oracle'
    def confdir(self, ws):
        return core.make_fs_confdir(ws)
    def fs_histories(self, rng, ctx, tier, v):
        """universes changed between calls: probes on an empty tree, after a first batch of creations, after a second one - in one process"""
        from props.c11 import C11
        default = ctx['rawd']['default_path_config'] or ctx['rawd']['path_configs'][0][0]
        self.with_path = set(k for pc in ctx['rawd']['path_configs'] if pc[0] == default for k, _ in dict((k, vv) for k, vv in pc[1])['templates'])
        self.leaf_keys = dict(ctx['rawd']['leaf_keys'])
        self.sep = ctx['rawd']['sep']
        # the types whose existence is read from the file tree (the others are answered from configured constants)
        self.routed_paths = set(t for t, d in dict((k, vv) for k, vv in dict((k, vv) for k, vv in ctx['raw'])['routing'])['finders'] if d and d[0] == 'paths')
        out = []
        nh = 8 if tier == 'quick' else 60
        from props.c05 import C05
        # the groups of path-backed types that share one key sequence (scene / movie / cache file of one state ...)
        fam = {}
        for t in v.order:
            if t in self.with_path:
                fam.setdefault(tuple(k for k, _ in v.types[t]), []).append(t)
        fams = [g for g in fam.values() if len(g) > 1]
        self.fs_created = {}
        for h in range(1, nh + 1):
            leafs = [e for e in C11().leafs(rng, v, rng.randint(3, 7)) if natural(v, e) and natural(v, e)[0] in self.with_path]
            if fams:
                # one entity of every type of a family, under one parent
                g = rng.choice(fams)
                base = C05().concrete(rng, v, g[0]).split('/')
                for t in g:
                    e = '/'.join(base[:-1] + [v.value(v.types[t][-1][1], rng)])
                    if natural(v, e) and natural(v, e)[0] in self.with_path:
                        leafs.append(e)
            extra = []
            for e in list(leafs):
                n = natural(v, e)
                keys = [k for k, _ in n[1]]
                # the same entity in every type that shares its key sequence (scene / movie / cache file of one state)
                for t in v.order:
                    if t != n[0] and t in self.with_path and [k for k, _ in v.types[t]] == keys and rng.random() < 0.7:
                        e2 = '/'.join(e.split('/')[:-1] + [v.value(v.types[t][-1][1], rng)])
                        n2 = natural(v, e2)
                        if n2 and n2[0] in self.with_path:
                            extra.append(e2)
                # a longer entity whose parent string is this one (a cache node named like an extension)
                for t in v.order:
                    if t in self.with_path and len(v.types[t]) == len(keys) + 1 and rng.random() < 0.5:
                        e3 = e + '/' + v.value(v.types[t][-1][1], rng)
                        n3 = natural(v, e3)
                        if n3 and n3[0] in self.with_path:
                            extra.append(e3)
            # an extension alias as a value is a search, not an entity
            ents = [e for e in leafs + extra if not any(g in v.alias for g in e.split('/'))]
            if not ents:
                continue
            rng.shuffle(ents)
            k = max(1, len(ents) // 2)
            stages = [ents[:k], ents[k:]]
            probes = set()
            for e in ents:
                parts = e.split('/')
                for i in range(1, len(parts) + 1):
                    probes.add('/'.join(parts[:i]))
                probes.add('/'.join(parts[:-1] + ['nope']))
            probes = sorted(probes)
            # concrete-looking Sids that are searches: an extension alias as last value; an un-applied query
            self_alias = []
            for e in ents:
                last = e.split('/')[-1]
                for al, members in v.alias.items():
                    if last in members:
                        self_alias.append(('/'.join(e.split('/')[:-1] + [al]), e))
            self_alias = self_alias[:4]
            unapplied = [e + '?foo=bar' for e in ents[:2]]
            out.append(Case('fs_reset', [], 'setup', {'h': h}))
            created = []
            for si in range(3):
                if si > 0:
                    for e in stages[si - 1]:
                        out.append(Case('w_create', ['', e, []], 'create', {'h': h, 'stage': si}))
                        created.append(e)
                for x in probes:
                    m = {'h': h, 'stage': si, 'sid': x}
                    if not any(ch in x for ch in '?:'):
                        mq = dict(m, finders=True)
                        out.append(Case('finder_exists', ['paths', '', x], 'probe-finders', mq))
                        out.append(Case('finder_exists', ['all', '', x], 'probe-finders', mq))
                        out.append(Case('find_paths', ['', x], 'probe-finders', mq))
                        out.append(Case('find_all', [x], 'probe-finders', mq))
                    out.append(Case('sid_exists', [['s', x]], 'probe', m))
                    out.append(Case('children', [['s', x]], 'probe', m))
                    out.append(Case('siblings', [['s', x]], 'probe', m))
                for (qa, e) in self_alias:
                    out.append(Case('sid_exists', [['s', qa]], 'probe-alias', {'h': h, 'stage': si, 'sid': qa, 'member': e}))
                    out.append(Case('find_all', [qa], 'probe-alias', {'h': h, 'stage': si, 'sid': qa, 'member': e}))
                    # the same on the Finders themselves: exists(s) of a FindInPaths / FindInAll object against its own find(s)
                    for kind in ('paths', 'all'):
                        out.append(Case('finder_exists', [kind, '', qa], 'probe-alias', {'h': h, 'stage': si, 'sid': qa, 'member': e}))
                    out.append(Case('find_paths', ['', qa], 'probe-alias', {'h': h, 'stage': si, 'sid': qa, 'member': e}))
                for qa in unapplied:
                    out.append(Case('sid_exists', [['s', qa]], 'probe-query', {'h': h, 'stage': si, 'sid': qa}))
                    out.append(Case('find_all', [qa], 'probe-query', {'h': h, 'stage': si, 'sid': qa}))
                self.fs_created[(h, si)] = list(created)
        out.append(Case('fs_reset', [], 'setup', {'h': 0}))
        return out
    def fs_oracle(self, cases, impl_out, ctx):
        v = gen.vocab_from_ctx(ctx)
        def ptype(s_):
            n = natural(v, s_)
            return n[0] if n and n[0] in self.with_path and n[0] in self.routed_paths else None
        def is_leaf(s_):
            n = natural(v, s_)
            return bool(n) and n[1][-1][0] == self.leaf_keys.get(n[0].split(self.sep)[0])
        def parent(s_):
            return '/'.join(s_.split('/')[:-1])
        fails = []
        fails_pre = fails
        closures = {}
        answers = {}
        # exists(s) is True exactly when find(s) yields something, also for concrete-looking searches
        pend = {}
        for c, o in zip(cases, impl_out):
            if c.stream in ('probe-alias', 'probe-query', 'probe-finders'):
                key = (c.meta['h'], c.meta['stage'], c.meta['sid'])
                pend.setdefault(key, {})[c.op + (':' + c.args[0] if c.op == 'finder_exists' else '')] = (c, o)
        for key, d in pend.items():
            for kind, fop in (('paths', 'find_paths'), ('all', 'find_all')):
                if 'finder_exists:' + kind in d and fop in d:
                    (ce, oe), (cf, of) = d['finder_exists:' + kind], d[fop]
                    if oe[0] == 'ok' and of[0] == 'ok' and (oe[1] == '1') != bool(of[1]):
                        fails_pre.append((ce, oe, '%s finder: exists(%r) is %s but find gives %r (after creating %r)' % (kind, key[2], oe[1], of[1], self.fs_created[(key[0], key[1])])))
            if 'sid_exists' in d and 'find_all' in d:
                (ce, oe), (cf, of) = d['sid_exists'], d['find_all']
                if oe[0] == 'ok' and of[0] == 'ok' and (oe[1] == '1') != bool(of[1]):
                    fails_pre.append((ce, oe, 'Sid(%r).exists() is %s but FindInAll.find gives %r (after creating %r)' % (key[2], oe[1], of[1], self.fs_created[(key[0], key[1])])))
        for c, o in zip(cases, impl_out):
            if c.stream == 'create' and o[0] != 'ok' and o[1] != 'SpilException':      # SpilException: it exists already (as an ancestor of an earlier creation)
                fails.append((c, o, 'create of %r raised %r' % (c.args[1], o)))
            if c.stream != 'probe':
                continue
            key = (c.meta['h'], c.meta['stage'])
            if key not in closures:
                X = set()
                for e in self.fs_created[key]:
                    parts = e.split('/')
                    keys = [k for k, _ in natural(v, e)[1]]
                    for i in range(1, len(parts) + 1):
                        a = '/'.join(parts[:i])
                        # the ancestor at level i is the Sid made of the first i fields: its type is the one with exactly those keys
                        # (the string alone may be typed otherwise: '.../w/mov' is a movie file, the parent of '.../w/mov/abc' is the node 'mov')
                        na = natural(v, a)
                        if ptype(a) and [k for k, _ in na[1]] == keys[:i]:
                            X.add(a)
                closures[key] = X
            X = closures[key]
            x = c.meta['sid']
            hist = 'after creating %r' % (self.fs_created[key],)
            if o[0] != 'ok':
                fails.append((c, o, '%s(%r) raised %r %s' % (c.op, x, o, hist))); continue
            if c.op == 'sid_exists':
                answers[key + (x,)] = o[1]
                if ptype(x) and (o[1] == '1') != (x in X):
                    fails.append((c, o, 'Sid(%r).exists() is %s %s' % (x, o[1], hist)))
            elif c.op == 'children':
                got = sorted(r for r in o[1] if ptype(r))
                exp = [] if is_leaf(x) or not natural(v, x) else sorted(e for e in X if parent(e) == x)
                if is_leaf(x) and o[1]:
                    fails.append((c, o, 'the leaf Sid(%r) has children %r %s' % (x, o[1], hist)))
                elif got != exp:
                    fails.append((c, o, 'Sid(%r).children() gives %r, the existing Sids whose parent it is are %r %s' % (x, got, exp, hist)))
            elif c.op == 'siblings':
                if not natural(v, x):
                    continue
                got = sorted(r for r in o[1] if ptype(r))
                exp = sorted(e for e in X if parent(e) == parent(x) and len(e.split('/')) == len(x.split('/')))
                if got != exp:
                    fails.append((c, o, 'Sid(%r).siblings() gives %r, the existing Sids sharing its parent are %r %s' % (x, got, exp, hist)))
        # whatever exists has an existing parent
        for (h, si, x), a in answers.items():
            if a == '1' and ptype(x) and ptype(parent(x)) and answers.get((h, si, parent(x))) == '0' \
                    and [k for k, _ in natural(v, parent(x))[1]] == [k for k, _ in natural(v, x)[1]][:-1]:      # the parent Sid is the one the parent string denotes
                fails.append((Case('sid_exists', [['s', x]], 'probe', {'h': h, 'stage': si}), ['ok', a], '%r exists but its parent %r does not' % (x, parent(x))))
        return fails
    def cases(self, rng, ctx, tier):
        v = gen.vocab_from_ctx(ctx)
        nu, ns = (40, 25) if tier == 'quick' else (400, 80)
        out = []
        gid = 0
        for _ in range(nu):
            items = [e for e in ls.universe(rng, v) if ':' not in e and '?' not in e]      # entries are Sid strings, not uris (the theorem's plain_entry guard)
            for _ in range(ns):
                gid += 1
                r = rng.random()
                if r < 0.6:
                    q = ls.search_from(rng, v, items, allow_gt=(rng.random() < 0.3))
                elif r < 0.85 and items:
                    q = rng.choice(items)
                else:
                    q = v.sid(v.any_type(rng), rng)
                for op in ('find_list', 'find_list_sids', 'find_one', 'exists'):
                    out.append(Case(op, [items, q], 'quad', {'g': gid}))
        out.extend(self.fs_histories(rng, ctx, tier, v))
        return out
    def oracle_bulk(self, cases, impl_out, ctx):
        groups = {}
        for c, o in zip(cases, impl_out):
            if 'g' in c.meta:
                groups.setdefault(c.meta['g'], {})[c.op] = (c, o)
        fails = self.fs_oracle(cases, impl_out, ctx)
        for g, d in groups.items():
            if len(d) < 4:
                continue
            (fc, fo), (sc, so), (oc, oo), (ec, eo) = d['find_list'], d['find_list_sids'], d['find_one'], d['exists']
            kinds = set(o[0] for o in (fo, so, oo, eo))
            if kinds != {'ok'}:
                if len(kinds) > 1 or len(set(o[1] for o in (fo, so, oo, eo))) > 1:
                    fails.append((fc, fo, 'find / find_one / exists do not fail alike: %r %r %r %r' % (fo, so, oo, eo)))
                continue
            found = fo[1]
            if [x[0] for x in so[1]] != found:
                fails.append((sc, so, 'as_sid=False strings %r differ from the strings of as_sid=True %r' % (found, [x[0] for x in so[1]])))
            first = found[:1]
            if oo[1] != first:
                fails.append((oc, oo, 'find_one %r is not the first element of find %r' % (oo[1], first)))
            if '' not in found[:1]:
                if eo[1] != ('1' if found else '0'):
                    fails.append((ec, eo, 'exists %r but find yields %r' % (eo[1], found)))
        return fails
    def nontrivial(self, case, impl):
        if case.stream == 'probe':
            return [case.meta['h'], case.meta['stage'], case.op, case.args] if impl[0] == 'ok' and impl[1] not in ('0', []) else None
        return case.args if case.op == 'find_list' and impl[0] == 'ok' and impl[1] else None
    def histogram_key(self, case, impl):
        if case.stream in ('probe', 'create', 'setup', 'probe-alias', 'probe-query', 'probe-finders'):
            return '%s:%s:stage%s:%s' % (case.stream, case.op, case.meta.get('stage'), 'raise' if impl[0] != 'ok' else ('some' if impl[1] not in ('0', []) else 'none'))
        return '%s:%s' % (case.op, 'raise' if impl[0] != 'ok' else (min(len(impl[1]), 3) if isinstance(impl[1], list) else impl[1]))

PROP = C12()
