(** C18: lemmas for get_new / publishing chains: lists and dictionaries, the version pattern, and
    [get_with(version=w)] on a naturally typed Sid (definitions: Data/PublishDefs.v). *)
From Coq Require Import List String Ascii Bool Arith Lia.
From Spil Require Import Base.Str Base.Dict Base.Outcome Base.PyPath Base.StrProofs Base.SplitProofs Regex.Re
  Regex.MatchProofs Resolva.Template Resolva.Resolver Conf.ConfUtil Conf.Conf Conf.WF Conf.Routing Sid.Query Sid.Sid
  Sid.TypingSpec Sid.TypingProofs Sid.SidLemmas Sid.SidProofs Sid.QueryProofs Path.UnambiguousDefs FS.Fs
  Search.Unfold Search.FindList Search.FindListProofs Search.Finders Search.TreeListDefs Search.TreeListProofs Search.TreePattern
  Search.ConstantsDefs Search.ConstantsLemmas
  Data.Data Data.VersionProofs Data.VersionOrderProofs Data.SidLevelDefs Data.SidLevelLast Data.PublishDefs.
Import ListNotations.
Local Open Scope string_scope.
Local Open Scope list_scope.

(** * Lists and dictionaries *)

Lemma index_of_nth : forall (l : list string) k i, index_of k l = Some i -> nth_error l i = Some k.
Proof.
  induction l as [|a l IH]; intros k i H; [discriminate|]. cbn [index_of] in H.
  destruct (String.eqb k a) eqn:E.
  - inversion H. apply String.eqb_eq in E. subst. reflexivity.
  - destruct (index_of k l) as [j|] eqn:Ej; [|discriminate]. inversion H. cbn [nth_error]. exact (IH k j Ej).
Qed.

Lemma nth_error_split {A} : forall (l : list A) i v, nth_error l i = Some v ->
  l = firstn i l ++ [v] ++ skipn (S i) l /\ List.length (firstn i l) = i.
Proof.
  induction l as [|a l IH]; intros i v H; [destruct i; discriminate|].
  destruct i as [|i]; cbn [nth_error] in H.
  - inversion H. split; reflexivity.
  - destruct (IH i v H) as (E & Hl). split; [|cbn [firstn List.length]; rewrite Hl; reflexivity].
    change (a :: l = a :: (firstn i l ++ [v] ++ skipn (S i) l)). f_equal. exact E.
Qed.

Lemma dset_dset {V} : forall (d : dict V) k a b, dset (dset d k a) k b = dset d k b.
Proof.
  induction d as [|[k' v'] d IH]; intros k a b; cbn [dset].
  - rewrite String.eqb_refl. reflexivity.
  - destruct (String.eqb k k') eqn:E; cbn [dset]; rewrite E; [reflexivity|]. rewrite IH. reflexivity.
Qed.

Lemma dset_ne {V} (d : dict V) k v : dset d k v <> [].
Proof. destruct d as [|[k' v'] d]; cbn [dset]; [discriminate|]. destruct (String.eqb k k'); discriminate. Qed.

(* setting the key at position |pre| *)
Lemma dset_at : forall pre (d : dict string) k v post w,
  NoDup (map fst d) -> nth_error (map fst d) (List.length pre) = Some k -> map snd d = pre ++ [v] ++ post ->
  map fst (dset d k w) = map fst d /\ map snd (dset d k w) = pre ++ [w] ++ post.
Proof.
  induction pre as [|a pre IH]; intros [|[k1 v1] d] k v post w Hnd Hk Hs; try discriminate;
    cbn [map fst snd app List.length nth_error dset] in *.
  - inversion Hk; subst k1. injection Hs as -> Hs. rewrite String.eqb_refl. cbn [map fst snd]. rewrite Hs.
    split; reflexivity.
  - injection Hs as -> Hs. inversion Hnd as [|? ? Hnin Hnd']; subst.
    destruct (String.eqb k k1) eqn:E.
    + apply String.eqb_eq in E. subst k1. exfalso. apply Hnin. exact (nth_error_In _ _ Hk).
    + destruct (IH d k v post w Hnd' Hk Hs) as (H1 & H2). cbn [map fst snd]. rewrite H1, H2. split; reflexivity.
Qed.

Lemma dget_dset_same {V} : forall (d : dict V) k v, dget (dset d k v) k = Some v.
Proof.
  induction d as [|[k' v'] d IH]; intros k v; cbn [dset dget].
  - rewrite String.eqb_refl. reflexivity.
  - destruct (String.eqb k k') eqn:E; cbn [dget]; rewrite E; [reflexivity | apply IH].
Qed.

Lemma dget_dset_other {V} : forall (d : dict V) k v k', k' <> k -> dget (dset d k v) k' = dget d k'.
Proof.
  induction d as [|[k1 v1] d IH]; intros k v k' Hne; cbn [dset dget].
  - apply String.eqb_neq in Hne. rewrite Hne. reflexivity.
  - destruct (String.eqb k k1) eqn:E; cbn [dget].
    + apply String.eqb_eq in E. subst k1. apply String.eqb_neq in Hne. rewrite Hne. reflexivity.
    + destruct (String.eqb k' k1); [reflexivity | apply IH; exact Hne].
Qed.

Lemma dget_firstn {V} : forall i (d : dict V) k v, dget (firstn i d) k = Some v -> dget d k = Some v.
Proof.
  induction i as [|i IH]; intros [|[k1 v1] d] k v H; try discriminate. cbn [firstn dget] in *.
  destruct (String.eqb k k1); [exact H | exact (IH d k v H)].
Qed.

Lemma nth_error_map_fst {A B} (l : list (A * B)) i a :
  nth_error (map fst l) i = Some a -> exists b, nth_error l i = Some (a, b).
Proof.
  rewrite nth_error_map. destruct (nth_error l i) as [[a' b]|]; [|discriminate].
  cbn. intros H. inversion H. exists b. reflexivity.
Qed.

(** * The segment patterns of a template *)

Lemma segs_ok_swap : forall pre (ps : list (string * re)) a b post k r,
  nth_error ps (List.length pre) = Some (k, r) -> seg_ok r a = seg_ok r b ->
  segs_ok ps (pre ++ [a] ++ post) = segs_ok ps (pre ++ [b] ++ post).
Proof.
  induction pre as [|g pre IH]; intros [|[k1 r1] ps] a b post k r Hn Hab; try discriminate;
    cbn [List.length nth_error app segs_ok] in *.
  - inversion Hn; subst. rewrite Hab. reflexivity.
  - rewrite (IH ps a b post k r Hn Hab). reflexivity.
Qed.

Lemma segs_ok_mid : forall pre (ps : list (string * re)) a post k r,
  nth_error ps (List.length pre) = Some (k, r) -> segs_ok ps (pre ++ [a] ++ post) = true -> seg_ok r a = true.
Proof.
  induction pre as [|g pre IH]; intros [|[k1 r1] ps] a post k r Hn H; try discriminate;
    cbn [List.length nth_error app segs_ok] in *.
  - inversion Hn; subst. apply andb_true_iff in H. exact (proj1 H).
  - apply andb_true_iff in H. exact (IH ps a post k r Hn (proj2 H)).
Qed.

(** * Characters of "v" + 3 digits *)

Lemma ntd_chars a : forall f n acc, mem_c a (nat_to_dec_aux f n acc) = true -> is_digit a = true \/ mem_c a acc = true.
Proof.
  induction f as [|f IH]; intros n acc H; [right; exact H|].
  destruct (Nat.lt_ge_cases n 10) as [Hn|Hn].
  - rewrite (ntd_small f n acc Hn) in H. cbn [mem_c] in H. apply orb_true_iff in H. destruct H as [H|H]; [|right; exact H].
    apply Ascii.eqb_eq in H. subst a. left. exact (dig_is_digit n Hn).
  - rewrite (ntd_big f n acc Hn) in H. destruct (IH _ _ H) as [H'|H']; [left; exact H'|].
    cbn [mem_c] in H'. apply orb_true_iff in H'. destruct H' as [H'|H']; [|right; exact H'].
    apply Ascii.eqb_eq in H'. subst a. left. exact (dig_is_digit _ (mod10_lt n)).
Qed.

Lemma zeros_chars a k : mem_c a (repeat_s "0" k) = true -> is_digit a = true.
Proof.
  induction k as [|k IH]; [discriminate|]. intros H.
  change (Ascii.eqb "0" a || mem_c a (repeat_s "0" k) = true) in H. apply orb_true_iff in H. destruct H as [H|H]; [|exact (IH H)].
  apply Ascii.eqb_eq in H. subst a. reflexivity.
Qed.

Lemma fmt_03d_chars a n : mem_c a (fmt_03d n) = true -> is_digit a = true.
Proof.
  unfold fmt_03d, pad_left. rewrite mem_c_app. intros H. apply orb_true_iff in H. destruct H as [H|H].
  - exact (zeros_chars a _ H).
  - unfold nat_to_dec in H. destruct (ntd_chars a _ _ _ H) as [H'|H']; [exact H' | discriminate].
Qed.

Lemma vname_chars a n : is_digit a = false -> Ascii.eqb "v" a = false -> mem_c a (vname n) = false.
Proof.
  intros Hd Hv. unfold vname. cbn [append mem_c]. rewrite Hv. cbn [orb].
  destruct (mem_c a (fmt_03d n)) eqn:E; [|reflexivity]. rewrite (fmt_03d_chars a n E) in Hd. discriminate.
Qed.

Lemma vname_ne n : vname n <> "".
Proof. unfold vname. discriminate. Qed.

Lemma vname_inj n m : vname n = vname m -> n = m.
Proof. intros H. destruct (Nat.eq_dec n m) as [E|E]; [exact E|]. exfalso. exact (vname_distinct n m E H). Qed.

Lemma vname_not_star n : vname n <> "*" /\ vname n <> ">".
Proof. unfold vname. split; discriminate. Qed.

(** * The finite language of a star-free pattern over digits *)

Lemma digit_chars_spec a : is_digit a = true <-> In a digit_chars.
Proof.
  unfold digit_chars. rewrite in_map_iff. split.
  - intros H. unfold is_digit in H. apply andb_true_iff in H. destruct H as (H1 & H2).
    apply Nat.leb_le in H1. apply Nat.leb_le in H2. exists (nat_of_ascii a - 48). split.
    + unfold dig. replace (48 + (nat_of_ascii a - 48)) with (nat_of_ascii a) by lia. apply ascii_nat_embedding.
    + apply in_seq. lia.
  - intros (k & <- & Hk). apply in_seq in Hk. apply dig_is_digit. lia.
Qed.

Lemma cls_chars_spec c l a : cls_chars c = Some l -> (in_cls c a = true <-> In a l).
Proof. destruct c; try discriminate. intros H. inversion H. subst l. apply digit_chars_spec. Qed.

Lemma re_lang_sound : forall r w c, Matches r w c -> forall l, re_lang r = Some l -> In w l.
Proof.
  induction 1 as [| a | c a Ha | r1 r2 w1 w2 c1 c2 H1 IH1 H2 IH2 | r1 r2 w c H IH | r1 r2 w c H IH | c w Hw
                 | n r w c H IH]; intros l Hl; cbn [re_lang] in Hl.
  - inversion Hl. left. reflexivity.
  - inversion Hl. left. reflexivity.
  - destruct (cls_chars c) as [lc|] eqn:Ec; [|discriminate]. inversion Hl. apply in_map_iff. exists a.
    split; [reflexivity|]. apply (cls_chars_spec c lc a Ec). exact Ha.
  - destruct (re_lang r1) as [l1|]; [|discriminate]. destruct (re_lang r2) as [l2|]; [|discriminate].
    inversion Hl. apply in_flat_map. exists w1. split; [exact (IH1 l1 eq_refl)|].
    apply in_map_iff. exists w2. split; [reflexivity | exact (IH2 l2 eq_refl)].
  - destruct (re_lang r1) as [l1|]; [|discriminate]. destruct (re_lang r2) as [l2|]; [|discriminate].
    inversion Hl. apply in_or_app. left. exact (IH l1 eq_refl).
  - destruct (re_lang r1) as [l1|]; [|discriminate]. destruct (re_lang r2) as [l2|]; [|discriminate].
    inversion Hl. apply in_or_app. right. exact (IH l2 eq_refl).
  - discriminate.
  - exact (IH l Hl).
Qed.

Lemma re_lang_complete : forall r l, re_lang r = Some l -> forall w, In w l -> exists c, Matches r w c.
Proof.
  induction r as [| a | c | r1 IH1 r2 IH2 | r1 IH1 r2 IH2 | c | n r IH]; intros l Hl w Hw; cbn [re_lang] in Hl.
  - inversion Hl. subst l. destruct Hw as [<-|[]]. exists []. constructor.
  - inversion Hl. subst l. destruct Hw as [<-|[]]. exists []. constructor.
  - destruct (cls_chars c) as [lc|] eqn:Ec; [|discriminate]. inversion Hl. subst l.
    apply in_map_iff in Hw. destruct Hw as (a & <- & Ha). exists []. constructor.
    apply (cls_chars_spec c lc a Ec). exact Ha.
  - destruct (re_lang r1) as [l1|]; [|discriminate]. destruct (re_lang r2) as [l2|]; [|discriminate].
    inversion Hl. subst l. apply in_flat_map in Hw. destruct Hw as (w1 & Hw1 & Hw).
    apply in_map_iff in Hw. destruct Hw as (w2 & <- & Hw2).
    destruct (IH1 l1 eq_refl w1 Hw1) as (c1 & M1). destruct (IH2 l2 eq_refl w2 Hw2) as (c2 & M2).
    exists (c1 ++ c2). constructor; assumption.
  - destruct (re_lang r1) as [l1|]; [|discriminate]. destruct (re_lang r2) as [l2|]; [|discriminate].
    inversion Hl. subst l. apply in_app_or in Hw. destruct Hw as [Hw|Hw].
    + destruct (IH1 l1 eq_refl w Hw) as (c1 & M1). exists c1. apply MAltL. exact M1.
    + destruct (IH2 l2 eq_refl w Hw) as (c2 & M2). exists c2. apply MAltR. exact M2.
  - discriminate.
  - destruct (IH l Hl w Hw) as (c1 & M1). exists (c1 ++ [(n, w)]). constructor. exact M1.
Qed.

Lemma re_lang_spec r l w : re_lang r = Some l -> (match_full r w = true <-> In w l).
Proof.
  intros Hl. rewrite match_full_iff. split.
  - intros (c & M). exact (re_lang_sound r w c M l Hl).
  - exact (re_lang_complete r l Hl w).
Qed.

Lemma version_values_spec w : In w version_values <-> version_value w.
Proof.
  unfold version_values, version_value. cbn [In]. rewrite in_map_iff. split.
  - intros [<-|[<-|(m & <- & Hm)]]; [left; reflexivity | right; left; reflexivity|].
    right. right. exists m. apply in_seq in Hm. split; [lia | reflexivity].
  - intros [->|[->|(m & Hm & ->)]]; [left; reflexivity | right; left; reflexivity|].
    right. right. exists m. split; [reflexivity | apply in_seq; lia].
Qed.

Theorem version_reb_sound r : version_reb r = true -> version_lang r.
Proof.
  unfold version_reb. destruct (re_lang r) as [l|] eqn:El; [|discriminate]. intros H.
  intros w. rewrite (re_lang_spec r l w El), <- version_values_spec.
  destruct (list_eqb l version_values_ordered) eqn:Eo.
  - clear H. apply list_eqb_eq in Eo. subst l. unfold version_values_ordered, version_values. rewrite in_app_iff. cbn [In].
    split; [intros [Hw | [Hw | [Hw | []]]]; auto | intros [Hw | [Hw | Hw]]; auto].
  - apply andb_true_iff in H. destruct H as (H1 & H2). rewrite forallb_forall in H1, H2. split.
    + intros Hw. apply in_list_In. exact (H1 w Hw).
    + intros Hw. apply in_list_In. exact (H2 w Hw).
Qed.

Theorem version_confb_sound Ld : version_confb Ld = true -> version_conf Ld.
Proof.
  unfold version_confb, version_conf. rewrite forallb_forall. intros H t ps k r Ht Hps Hin Hk.
  specialize (H t Ht). rewrite Hps in H. rewrite forallb_forall in H. specialize (H (k, r) Hin). cbn [fst snd] in H.
  subst k. rewrite String.eqb_refl in H. exact (version_reb_sound r H).
Qed.

(** * x with another version *)

(* x is naturally typed, its segments are [pre ++ [v] ++ post], and the key at [v] is "version" *)
Definition vctx (Ld : Loaded) (x : sid) (pre : list string) (v : string) (post : list string) : Prop :=
  naturally_typed Ld x /\ split_c "/" (s_string x) = pre ++ [v] ++ post /\
  nth_error (map fst (s_fields x)) (List.length pre) = Some "version" /\ mem_c "010" (s_string x) = false.

Lemma vsid_vsid x a b : vsid (vsid x a) b = vsid x b.
Proof. unfold vsid. cbn [s_fields s_type]. rewrite dset_dset. reflexivity. Qed.

Lemma vsid_version x w : sid_get (vsid x w) "version" = Some w.
Proof. unfold vsid, sid_get. cbn [s_fields]. apply dget_dset_same. Qed.

Lemma vsid_inj x a b : vsid x a = vsid x b -> a = b.
Proof. intros H. pose proof (vsid_version x a) as Ha. rewrite H, vsid_version in Ha. inversion Ha. reflexivity. Qed.

Lemma vsid_other x w k : k <> "version" -> sid_get (vsid x w) k = sid_get x k.
Proof. intros Hk. unfold vsid, sid_get. cbn [s_fields]. apply dget_dset_other. exact Hk. Qed.

Lemma vsid_bool x w : sid_bool (vsid x w) = true.
Proof.
  unfold sid_bool, vsid. cbn [s_fields]. pose proof (dset_ne (s_fields x) "version" w) as H.
  destruct (dset (s_fields x) "version" w); [congruence | reflexivity].
Qed.

Lemma vsid_type x w : s_type (vsid x w) = s_type x.
Proof. reflexivity. Qed.

(* get_with(version=b) does not see the version it replaces *)
Lemma kw_vsid Ld x a b : sid_bool x = true ->
  get_with_kw Ld (vsid x a) [("version", Some b)] = get_with_kw Ld x [("version", Some b)].
Proof.
  intros Hb. unfold get_with_kw. rewrite Hb, (vsid_bool x a). cbn [negb]. rewrite !andb_false_r.
  change (apply_kwargs (s_fields (vsid x a)) [("version", Some b)]) with (dset (dset (s_fields x) "version" a) "version" b).
  change (apply_kwargs (s_fields x) [("version", Some b)]) with (dset (s_fields x) "version" b).
  rewrite dset_dset. reflexivity.
Qed.

Section VS.
Variables (c : Conf) (Ld : Loaded).
Hypothesis Hload : load c = Some Ld.
Hypothesis Hwf : wf_loadedb Ld = true.

Local Notation tpls := (r_tpls (l_sid Ld)).
Local Notation names t := (item_names (tp_items t)).

Lemma vctx_fields x pre v post : vctx Ld x pre v post ->
  map snd (s_fields x) = pre ++ [v] ++ post /\ NoDup (map fst (s_fields x)) /\ sid_get x "version" = Some v /\
  s_fields x <> [] /\ sid_bool x = true.
Proof.
  intros (Hnat & Hsegs & Hk & _).
  destruct (typed_parts c Ld Hload Hwf x (nat_typed_search c Ld Hload Hwf x Hnat))
    as (ts & _ & _ & _ & _ & Hsnd & _ & Hne & Hnd & _).
  rewrite Hsegs in Hsnd. split; [exact Hsnd|]. split; [exact Hnd|]. split; [|split; [exact Hne|]].
  - apply (dget_nth (s_fields x) (List.length pre) "version" v Hnd Hk). rewrite Hsnd. apply nth_error_mid.
  - unfold sid_bool. destruct (s_fields x); [congruence | reflexivity].
Qed.

Lemma vsid_parts x pre v post w : vctx Ld x pre v post ->
  map fst (s_fields (vsid x w)) = map fst (s_fields x) /\ map snd (s_fields (vsid x w)) = pre ++ [w] ++ post /\
  s_string (vsid x w) = join "/" (pre ++ [w] ++ post).
Proof.
  intros H. destruct (vctx_fields x pre v post H) as (Hsnd & Hnd & _). destruct H as (_ & _ & Hk & _).
  destruct (dset_at pre (s_fields x) "version" v post w Hnd Hk Hsnd) as (D1 & D2).
  unfold vsid. cbn [s_fields s_string]. rewrite D2. repeat split; assumption.
Qed.

Lemma vsid_self x pre v post : vctx Ld x pre v post -> vsid x v = x.
Proof.
  intros H. destruct (vsid_parts x pre v post v H) as (P1 & P2 & P3).
  destruct (vctx_fields x pre v post H) as (Hsnd & _). destruct H as (Hnat & Hsegs & _).
  assert (Ef : s_fields (vsid x v) = s_fields x) by (apply fst_snd_eq; [exact P1 | rewrite P2, Hsnd; reflexivity]).
  destruct x as [s t d]. unfold vsid in *. cbn [s_fields s_type s_string] in *. rewrite Ef. f_equal.
  rewrite Hsnd, <- Hsegs. apply (join_split_c "/").
Qed.

Lemma vctx_forall x pre v post (P : string -> Prop) : vctx Ld x pre v post ->
  Forall P (split_c "/" (s_string x)) -> Forall P pre /\ P v /\ Forall P post.
Proof.
  intros (_ & Hsegs & _) H. rewrite Hsegs in H. apply Forall_app in H. destruct H as (H1 & H2).
  cbn [app] in H2. inversion H2; subst. repeat split; assumption.
Qed.

Lemma forall_mid (P : string -> Prop) pre w post : Forall P pre -> P w -> Forall P post -> Forall P (pre ++ [w] ++ post).
Proof. intros H1 H2 H3. apply Forall_app. split; [exact H1|]. constructor; assumption. Qed.

Lemma vsid_split x pre v post w : vctx Ld x pre v post -> mem_c "/" w = false ->
  split_c "/" (s_string (vsid x w)) = pre ++ [w] ++ post.
Proof.
  intros H Hw. destruct (vsid_parts x pre v post w H) as (_ & _ & ->).
  destruct (vctx_forall x pre v post _ H (split_c_nomem_all "/" (s_string x))) as (F1 & _ & F3).
  apply (split_c_join "/"); [destruct pre; discriminate|]. apply forall_mid; assumption.
Qed.

(* a character that is in no segment of x and not in w is not in the string of x with version w *)
Lemma vsid_mem x pre v post w a : vctx Ld x pre v post -> Ascii.eqb "/" a = false ->
  mem_c a (s_string x) = false -> mem_c a w = false -> mem_c a (s_string (vsid x w)) = false.
Proof.
  intros H Ha Hx Hw. destruct (vsid_parts x pre v post w H) as (_ & _ & ->).
  destruct (vctx_forall x pre v post _ H (mem_c_split a "/" (s_string x) Hx)) as (F1 & _ & F3).
  apply mem_c_join; [cbn [mem_c]; rewrite Ha; reflexivity|]. apply forall_mid; assumption.
Qed.

End VS.

(** * get_with(version=w) on a naturally typed Sid, under the closed version pattern *)

Section KW.
Variables (c : Conf) (Ld : Loaded).
Hypothesis Hload : load c = Some Ld.
Hypothesis Hwf : wf_loadedb Ld = true.
Hypothesis Hver : version_conf Ld.

Local Notation tpls := (r_tpls (l_sid Ld)).
Local Notation names t := (item_names (tp_items t)).

Lemma version_value_ne w : version_value w -> w <> "".
Proof. intros [->|[->|(m & _ & ->)]]; [discriminate | discriminate | apply vname_ne]. Qed.

(* the pattern at the version position of a template with the keys of x *)
Lemma version_re_at x pre v post t ps : vctx Ld x pre v post -> In t tpls -> phs (tp_items t) = Some ps ->
  map fst ps = map fst (s_fields x) ->
  exists r, nth_error ps (List.length pre) = Some ("version", r) /\ version_lang r.
Proof.
  intros (_ & _ & Hk & _) Hin Hps Hn. rewrite <- Hn in Hk.
  destruct (nth_error_map_fst ps _ _ Hk) as (r & Hr). exists r. split; [exact Hr|].
  exact (Hver t ps "version" r Hin Hps (nth_error_In _ _ Hr) eq_refl).
Qed.

(* the version of a naturally typed Sid is a version value *)
Lemma vctx_value x pre v post : vctx Ld x pre v post -> version_value v.
Proof.
  intros H. pose proof H as (Hnat & Hsegs & Hk & _).
  destruct (nat_parts Ld x Hnat) as (_ & pre_t & tp & post_t & _ & Hin & _ & Ha & _).
  destruct (accepts_fields Ld Hwf tp _ _ Hin Ha) as (Hfst & _).
  destruct (tpl_parts Ld Hwf tp Hin) as (_ & _ & ps & Hps & _ & Hpn).
  destruct (version_re_at x pre v post tp ps H Hin Hps) as (r & Hr & Hl); [rewrite Hpn, Hfst; reflexivity|].
  unfold accepts in Ha. rewrite Hps, Hsegs in Ha. cbv zeta in Ha.
  destruct (segs_ok ps (pre ++ [v] ++ post)) eqn:Eok; [|discriminate].
  apply Hl. exact (segs_ok_mid pre ps v post _ r Hr Eok).
Qed.

(* a template with the keys of x accepts x with the version w exactly when it accepts x and w is a version value *)
Lemma accepts_vsid x pre v post w t : vctx Ld x pre v post -> In t tpls -> names t = map fst (s_fields x) ->
  mem_c "/" w = false ->
  (version_value w ->
   accepts t (s_string (vsid x w)) =
   match accepts t (s_string x) with Some _ => Some (s_fields (vsid x w)) | None => None end) /\
  (~ version_value w -> accepts t (s_string (vsid x w)) = None).
Proof.
  intros H Hin Hn Hw. pose proof (vctx_value x pre v post H) as Hv.
  destruct (tpl_parts Ld Hwf t Hin) as (_ & _ & ps & Hps & _ & Hpn).
  destruct (version_re_at x pre v post t ps H Hin Hps) as (r & Hr & Hl); [rewrite Hpn; exact Hn|].
  destruct (vsid_parts c Ld Hload Hwf x pre v post w H) as (P1 & P2 & _).
  pose proof H as (_ & Hsegs & _).
  unfold accepts. rewrite Hps, (vsid_split c Ld Hload Hwf x pre v post w H Hw), Hsegs. cbv zeta.
  assert (Hcomb : combine (map fst ps) (pre ++ [w] ++ post) = s_fields (vsid x w)).
  { rewrite Hpn, Hn, <- P1, <- P2. apply combine_fst_snd. }
  split.
  - intros Hvw. assert (Esw : seg_ok r w = seg_ok r v).
    { unfold seg_ok. rewrite (proj2 (Hl w) Hvw), (proj2 (Hl v) Hv). reflexivity. }
    rewrite (segs_ok_swap pre ps w v post _ r Hr Esw).
    destruct (segs_ok ps (pre ++ [v] ++ post)); [rewrite Hcomb; reflexivity | reflexivity].
  - intros Hnv. destruct (segs_ok ps (pre ++ [w] ++ post)) eqn:Eok; [|reflexivity].
    exfalso. apply Hnv. apply Hl. exact (segs_ok_mid pre ps w post _ r Hr Eok).
Qed.

(* the string of x with another version: no newline, not empty *)
Lemma vsid_string_ok x pre v post w : vctx Ld x pre v post -> mem_c "/" w = false -> mem_c "010" w = false -> w <> "" ->
  mem_c "010" (s_string (vsid x w)) = false /\ s_string (vsid x w) <> "".
Proof.
  intros H Hw1 Hw2 Hw3. pose proof H as (_ & _ & _ & Hnl). split.
  - exact (vsid_mem c Ld Hload Hwf x pre v post w "010" H eq_refl Hnl Hw2).
  - intros E. pose proof (vsid_split c Ld Hload Hwf x pre v post w H Hw1) as Hs. rewrite E in Hs. cbn [split_c] in Hs.
    destruct pre as [|g pre]; cbn [app] in Hs; inversion Hs; [congruence | destruct pre; discriminate].
Qed.

(* what format_tpl gives on the fields of x with another version *)
Lemma format_vsid x pre v post w t : vctx Ld x pre v post -> In t tpls ->
  mem_c "/" w = false -> mem_c "010" w = false -> w <> "" ->
  format_tpl (l_sid Ld) t (s_fields (vsid x w)) =
  Ok (if keys_eq (dkeys (s_fields (vsid x w))) (names t)
      then match accepts t (s_string (vsid x w)) with Some _ => Some (s_string (vsid x w)) | None => None end
      else None) /\
  (keys_eq (dkeys (s_fields (vsid x w))) (names t) = true -> names t = map fst (s_fields x)).
Proof.
  intros H Hin Hw1 Hw2 Hw3.
  destruct (vsid_parts c Ld Hload Hwf x pre v post w H) as (P1 & P2 & P3).
  destruct (vctx_fields c Ld Hload Hwf x pre v post H) as (_ & Hnd & _).
  pose proof H as (Hnat & _).
  destruct (nat_parts Ld x Hnat) as (_ & pre_t & tp & post_t & _ & Hintp & _ & Ha & _).
  destruct (accepts_fields Ld Hwf tp _ _ Hintp Ha) as (Hfst & _).
  assert (Hnames : keys_eq (dkeys (s_fields (vsid x w))) (names t) = true -> names t = map fst (s_fields x)).
  { intros Hk. apply keys_eq_iff in Hk. destruct Hk as (Hk1 & Hk2). unfold dkeys in Hk1, Hk2.
    rewrite P1, Hfst in Hk1, Hk2. rewrite Hfst. apply (same_seq Ld Hwf t tp Hin Hintp); assumption. }
  split; [|exact Hnames].
  destruct (keys_eq (dkeys (s_fields (vsid x w))) (names t)) eqn:Hk;
    [|exact (format_tpl_keys_false c Ld Hload Hwf t _ Hin Hk)].
  assert (Hf : fmt_str t (s_fields (vsid x w)) = s_string (vsid x w)).
  { rewrite P3, <- P2. apply fmt_str_same; [rewrite P1; exact Hnd | rewrite P1; exact (Hnames eq_refl) | reflexivity]. }
  destruct (vsid_string_ok x pre v post w H Hw1 Hw2 Hw3) as (S1 & S2).
  rewrite (format_tpl_nonl c Ld Hload Hwf t _ Hin Hk); rewrite Hf; [reflexivity | exact S1 | exact S2].
Qed.

(** get_with(version=w), w a version value: x with the version w, same type, every other field unchanged *)
Theorem kw_version_ok x pre v post w : vctx Ld x pre v post -> version_value w ->
  mem_c "/" w = false -> mem_c "010" w = false ->
  get_with_kw Ld x [("version", Some w)] = Ok (vsid x w) /\ typed_search Ld (vsid x w).
Proof.
  intros H Hvw Hw1 Hw2. pose proof (version_value_ne w Hvw) as Hw3.
  pose proof H as (Hnat & _).
  destruct (nat_parts Ld x Hnat) as (_ & pre_t & tp & post_t & E & Hin & Hn & Ha & Hpre).
  destruct (accepts_fields Ld Hwf tp _ _ Hin Ha) as (Hfst & _).
  destruct (vctx_fields c Ld Hload Hwf x pre v post H) as (_ & _ & _ & _ & Hb).
  destruct (vsid_string_ok x pre v post w H Hw1 Hw2 Hw3) as (S1 & S2).
  (* the template of x accepts *)
  assert (Hatp : accepts tp (s_string (vsid x w)) = Some (s_fields (vsid x w))).
  { rewrite (proj1 (accepts_vsid x pre v post w tp H Hin (eq_sym Hfst) Hw1) Hvw), Ha. reflexivity. }
  assert (Hforced : forced Ld (s_type x) (s_string (vsid x w)) = Some (s_type x, s_fields (vsid x w))).
  { rewrite <- Hn. exact (forced_of_accepts c Ld Hload Hwf tp _ _ Hin S2 Hatp). }
  split; [|exact Hforced].
  assert (Hsf : sid_of_fields Ld (s_fields (vsid x w)) = Ok (vsid x w)).
  { rewrite (sid_of_fields_first c Ld Hload Hwf (s_fields (vsid x w)) pre_t tp post_t (s_string (vsid x w))
               (dset_ne (s_fields x) "version" w) E).
    - unfold of_forced. rewrite Hn, Hforced. reflexivity.
    - intros t' Hin'. assert (Hin2 : In t' tpls) by (rewrite E; apply in_or_app; left; exact Hin').
      destruct (format_vsid x pre v post w t' H Hin2 Hw1 Hw2 Hw3) as (Hf & Hnm). rewrite Hf.
      destruct (keys_eq _ _) eqn:Hk; [|reflexivity].
      rewrite (proj1 (accepts_vsid x pre v post w t' H Hin2 (Hnm eq_refl) Hw1) Hvw), (Hpre t' Hin'). reflexivity.
    - destruct (format_vsid x pre v post w tp H Hin Hw1 Hw2 Hw3) as (Hf & _). rewrite Hf, Hatp.
      assert (Hk : keys_eq (dkeys (s_fields (vsid x w))) (names tp) = true).
      { destruct (vsid_parts c Ld Hload Hwf x pre v post w H) as (P1 & _). unfold dkeys. rewrite P1, Hfst.
        apply keys_eq_refl. }
      rewrite Hk. reflexivity. }
  unfold get_with_kw. rewrite Hb. cbn [negb]. rewrite andb_false_r.
  change (apply_kwargs (s_fields x) [("version", Some w)]) with (s_fields (vsid x w)).
  assert (Hfac : sid_factory Ld (FromFields (s_fields (vsid x w))) = sid_of_fields Ld (s_fields (vsid x w))).
  { cbn [sid_factory]. pose proof (dset_ne (s_fields x) "version" w) as Hd. cbn [vsid s_fields].
    destruct (dset (s_fields x) "version" w); [congruence | reflexivity]. }
  rewrite Hfac, Hsf. cbn [bind]. rewrite (vsid_bool x w). cbn [negb]. rewrite andb_false_r. reflexivity.
Qed.

(** get_with(version=w), w outside the pattern (e.g. beyond "v999"): the empty Sid *)
Theorem kw_version_no x pre v post w : vctx Ld x pre v post -> ~ version_value w ->
  mem_c "/" w = false -> mem_c "010" w = false -> w <> "" ->
  get_with_kw Ld x [("version", Some w)] = Ok empty_sid.
Proof.
  intros H Hnv Hw1 Hw2 Hw3. pose proof H as (Hnat & _).
  destruct (nat_parts Ld x Hnat) as (_ & pre_t & tp & post_t & E & Hin & Hn & Ha & Hpre).
  destruct (accepts_fields Ld Hwf tp _ _ Hin Ha) as (Hfst & _).
  destruct (vctx_fields c Ld Hload Hwf x pre v post H) as (_ & _ & _ & _ & Hb).
  assert (Hsf : sid_of_fields Ld (s_fields (vsid x w)) = Ok empty_sid).
  { rewrite (sid_of_fields_eq c Ld Hload Hwf (s_fields (vsid x w)) (dset_ne (s_fields x) "version" w)).
    destruct (flat_map (fhit Ld (s_fields (vsid x w))) tpls) as [|[n f] rest] eqn:Ef; [reflexivity|]. exfalso.
    destruct (fhit_in Ld (s_fields (vsid x w)) n f) as (t1 & Hin1 & _ & Hf1). { rewrite Ef. left. reflexivity. }
    destruct (format_vsid x pre v post w t1 H Hin1 Hw1 Hw2 Hw3) as (Hf & Hnm). rewrite Hf in Hf1.
    destruct (keys_eq _ _) eqn:Hk; [|discriminate].
    rewrite (proj2 (accepts_vsid x pre v post w t1 H Hin1 (Hnm eq_refl) Hw1) Hnv) in Hf1. discriminate. }
  unfold get_with_kw. rewrite Hb. cbn [negb]. rewrite andb_false_r.
  change (apply_kwargs (s_fields x) [("version", Some w)]) with (s_fields (vsid x w)).
  assert (Hfac : sid_factory Ld (FromFields (s_fields (vsid x w))) = sid_of_fields Ld (s_fields (vsid x w))).
  { cbn [sid_factory]. pose proof (dset_ne (s_fields x) "version" w) as Hd. cbn [vsid s_fields].
    destruct (dset (s_fields x) "version" w); [congruence | reflexivity]. }
  rewrite Hfac, Hsf. cbn [bind]. rewrite (is_search_empty Ld Hwf). reflexivity.
Qed.

End KW.

Print Assumptions version_confb_sound.
Print Assumptions kw_version_ok.
Print Assumptions kw_version_no.
