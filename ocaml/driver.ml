(* Line protocol around the extracted model.
   request : <op-hex> <tree>      tree ::= x<hex> | ( tree* )    tokens separated by spaces
   special : CONF <tree>          loads a configuration (Conf.load_tree)
   reply   : <tree>  on one line *)
let hex_of_chars (l : char list) : string =
  let b = Buffer.create 16 in
  Stdlib.List.iter (fun c -> Buffer.add_string b (Printf.sprintf "%02x" (Stdlib.Char.code c))) l;
  Buffer.contents b
let chars_of_hex (s : string) : char list =
  let n = Stdlib.String.length s / 2 in
  Stdlib.List.init n (fun i -> Stdlib.Char.chr (int_of_string ("0x" ^ Stdlib.String.sub s (2*i) 2)))
let rec print_tree b (t : Tree.tree) =
  match t with
  | Tree.L s -> Buffer.add_char b 'x'; Buffer.add_string b (hex_of_chars s)
  | Tree.N l -> Buffer.add_string b "("; Stdlib.List.iter (fun x -> Buffer.add_char b ' '; print_tree b x) l; Buffer.add_string b " )"
let rec parse_list toks acc =
  match toks with
  | ")" :: rest -> (Stdlib.List.rev acc, rest)
  | [] -> failwith "unbalanced"
  | _ -> let (t, rest) = parse_one toks in parse_list rest (t :: acc)
and parse_one toks =
  match toks with
  | "(" :: rest -> let (l, rest') = parse_list rest [] in (Tree.N l, rest')
  | tok :: rest when Stdlib.String.length tok >= 1 && Stdlib.String.get tok 0 = 'x' ->
      (Tree.L (chars_of_hex (Stdlib.String.sub tok 1 (Stdlib.String.length tok - 1))), rest)
  | _ -> failwith "bad token"
let () =
  let st = ref None in
  let rt = ref None in
  let fs = ref [] in
  (try
    while true do
      let line = input_line stdin in
      let toks = Stdlib.List.filter (fun s -> s <> "") (Stdlib.String.split_on_char ' ' line) in
      let b = Buffer.create 256 in
      (match toks with
       | "CONF" :: rest ->
           let (t, _) = parse_one rest in
           st := Conf.load_tree t;
           rt := Routing.parse_routing t;
           fs := [];
           Buffer.add_string b (match !st with Some _ -> "LOADED" | None -> "LOADFAIL")
       | op :: rest ->
           let (args, _) = parse_one rest in
           let args = (match args with Tree.N l -> l | _ -> failwith "args") in
           let (res, fs') = DispatchFs.run_top !st !rt !fs (chars_of_hex op) args in
           fs := fs';
           print_tree b res
       | [] -> Buffer.add_string b "EMPTY");
      print_string (Buffer.contents b); print_newline ()
    done
  with End_of_file -> ())
