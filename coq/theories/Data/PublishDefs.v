(** C18: get_new("version") and publishing chains (create(get_new(...)) repeated): definitions and guards
    (proofs: Data/PublishLemmas.v, Data/PublishProofs.v; instances: gen/PublishExamples.v). *)
From Coq Require Import List String Ascii Bool Arith.
From Spil Require Import Base.Str Base.Dict Base.Outcome Base.PyPath Regex.Re
  Resolva.Template Resolva.Resolver Conf.ConfUtil Conf.Conf Conf.WF Conf.Routing Sid.Query Sid.Sid Sid.TypingSpec
  Sid.SidProofs Path.UnambiguousDefs FS.Fs Search.Unfold Search.FindList Search.Finders
  Search.TreeListDefs Data.Data Data.VersionProofs Data.SidLevelDefs Data.CreateDefs.
Import ListNotations.
Local Open Scope string_scope.

(** ** The Sid x with another version: every other field, and the type, unchanged *)

Definition vsid (x : sid) (w : string) : sid :=
  let d := dset (s_fields x) "version" w in
  mkSid (join "/" (map snd d)) (s_type x) d.

(** ** The closed version pattern: [v\d\d\d], or one of the search symbols "*" and ">" *)

Definition version_value (w : string) : Prop :=
  w = "*" \/ w = ">" \/ exists m, m < 1000 /\ w = vname m.

(* the pattern accepts exactly these values *)
Definition version_lang (r : re) : Prop := forall w, match_full r w = true <-> version_value w.

(* every "version" placeholder of every Sid template has such a pattern *)
Definition version_conf (Ld : Loaded) : Prop :=
  forall t ps k r, In t (r_tpls (l_sid Ld)) -> phs (tp_items t) = Some ps -> In (k, r) ps ->
    k = "version" -> version_lang r.

(** *** the same, computed: the finite language of a star-free pattern over digits *)

Definition digit_chars : list ascii := map dig (seq 0 10).

Definition cls_chars (c : cls) : option (list ascii) :=
  match c with
  | CDigit => Some digit_chars
  | _ => None
  end.

Fixpoint re_lang (r : re) : option (list string) :=
  match r with
  | Eps => Some [""]
  | Chr a => Some [String a ""]
  | Cls c => match cls_chars c with Some l => Some (map (fun a => String a "") l) | None => None end
  | Seq r1 r2 =>
      match re_lang r1, re_lang r2 with
      | Some l1, Some l2 => Some (flat_map (fun w1 => map (append w1) l2) l1)
      | _, _ => None
      end
  | Alt r1 r2 =>
      match re_lang r1, re_lang r2 with
      | Some l1, Some l2 => Some (l1 ++ l2)%list
      | _, _ => None
      end
  | Star _ => None
  | Grp _ r1 => re_lang r1
  end.

Definition version_values : list string := "*" :: ">" :: map vname (seq 0 1000).

(* the language of "(v\d\d\d|\*|\>)" in the order [re_lang] lists it: compared first, as a whole (fast) *)
Definition version_values_ordered : list string := (map vname (seq 0 1000) ++ ["*"; ">"])%list.

Definition version_reb (r : re) : bool :=
  match re_lang r with
  | Some l => if list_eqb l version_values_ordered then true
              else forallb (fun w => in_list w version_values) l && forallb (fun w => in_list w l) version_values
  | None => false
  end.

Definition version_confb (Ld : Loaded) : bool :=
  forallb (fun t => match phs (tp_items t) with
                    | Some ps => forallb (fun kr => if String.eqb (fst kr) "version" then version_reb (snd kr) else true) ps
                    | None => true
                    end) (r_tpls (l_sid Ld)).

(** ** The guard on x (it does not depend on the data set) *)

Definition is_gnext (g : getter) : bool := match g with GNext => true | _ => false end.

(* the ">" search unfolds to searches of the type of x only *)
Definition types_okb (Ld : Loaded) (x : sid) (qs : list sid) : bool :=
  forallb (fun q => match starred Ld q with
                    | Ok q' => String.eqb (s_type q') (s_type x)
                    | Raise _ => false
                    end) qs.

(* x is naturally typed, has a non empty version, its level is served by the path finder [FPaths id cfg]
   ([last_guardb]), its next-getter is the NextGetter, and its string is plain *)
Definition chain_guardb (Ld : Loaded) (Rt : Routing) (id cfg : string) (x : sid) : bool :=
  last_guardb Ld Rt id cfg x "version" && nat_typedb Ld x && plain_memberb x
  && negb (mem_c "010" (s_string x))
  && is_gnext (getter_for Rt (s_type x) true)
  && match sid_get x "version" with Some v => truthy v | None => false end
  && match get_with_kw Ld x [("version", Some ">")] with
     | Ok q0 => match unfold_search Ld (s_string q0) false false with
                | Ok qs => types_okb Ld x qs
                | Raise _ => false
                end
     | Raise _ => false
     end.

(** ** The chain of x in a data set *)

(* the versions of x that exist are [vname m] with m <= n, and [vname n] exists unless n = 0
   (n = 0: no version, or "v000" alone) *)
Definition chain_top (E : list sid) (x : sid) (n : nat) : Prop :=
  n < 1000 /\
  (forall w, In (vsid x w) E -> exists m, m <= n /\ w = vname m) /\
  (In (vsid x (vname n)) E \/ n = 0).

(* the Sids published by j steps after version n *)
Definition published (x : sid) (n j : nat) : list sid := map (fun i => vsid x (vname (n + i))) (seq 1 j).

(** ** The hypotheses on the data set, computed *)

Definition chain_topb (E : list sid) (x : sid) (n : nat) : bool :=
  Nat.ltb n 1000
  && forallb (fun e => match sid_get e "version" with
                       | Some w => negb (sid_eqb_full e (vsid x w)) || in_list w (map vname (seq 0 (S n)))
                       | None => true
                       end) E
  && (Nat.eqb n 0 || existsb (sid_eqb_full (vsid x (vname n))) E).

(* the Sids of the next k versions after n (up to 999) pass the guard of create() *)
Definition creatableb (Ld : Loaded) (cfg : string) (x : sid) (n k : nat) : bool :=
  forallb (fun m => if Nat.ltb m 1000 then create_guardb Ld cfg (vsid x (vname m)) else true) (seq (S n) k).
