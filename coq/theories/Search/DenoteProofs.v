(** C07: the unfolding pipeline computes the denotation of Search/UnfoldSpec.v. *)
From Coq Require Import List String Ascii Bool Arith Lia Permutation.
From Spil Require Import Base.Str Base.Dict Base.Outcome Base.StrProofs Base.SplitProofs
  Regex.Re Regex.MatchProofs Resolva.Template Resolva.Resolver Conf.ConfUtil Conf.Conf Conf.WF
  Sid.Query Sid.Sid Sid.TypingSpec Sid.TypingProofs Sid.SidLemmas Sid.SidProofs Sid.QueryStringProofs Sid.QueryProofs
  Search.Unfold Search.SortLemmas Search.UnfoldProofs Search.UnfoldSpec Search.DenoteLemmas Search.DenoteQuery Search.DenoteTable.
Import ListNotations.
Local Open Scope string_scope.

Lemma mapM_In_fwd {A B} (f : A -> outcome B) : forall l r x, mapM f l = Ok r -> In x l ->
  exists y, f x = Ok y /\ In y r.
Proof.
  induction l as [|a l IH]; intros r x H Hx; [destruct Hx|]. cbn [mapM] in H.
  destruct (f a) as [ya|] eqn:Ea; [|discriminate]. cbn [bind] in H.
  destruct (mapM f l) as [ys|] eqn:El; [|discriminate]. cbn [bind] in H. inversion H; subst.
  destruct Hx as [<-|Hx].
  - exists ya. split; [exact Ea | left; reflexivity].
  - destruct (IH ys x eq_refl Hx) as (y & Hy & Hin). exists y. split; [exact Hy | right; exact Hin].
Qed.

Lemma concat_mapM_In_fwd {A B} (f : A -> outcome (list B)) : forall l r x, concat_mapM f l = Ok r -> In x l ->
  exists ys, f x = Ok ys /\ incl ys r.
Proof.
  induction l as [|a l IH]; intros r x H Hx; [destruct Hx|]. cbn [concat_mapM] in H.
  destruct (f a) as [ya|] eqn:Ea; [|discriminate]. cbn [bind] in H.
  destruct (concat_mapM f l) as [ys|] eqn:El; [|discriminate]. cbn [bind] in H. inversion H; subst.
  destruct Hx as [<-|Hx].
  - exists ya. split; [exact Ea|]. intros y Hy. apply in_or_app. left. exact Hy.
  - destruct (IH ys x eq_refl Hx) as (y & Hy & Hin). exists y. split; [exact Hy|].
    intros z Hz. apply in_or_app. right. apply Hin. exact Hz.
Qed.

Lemma mapM_total {A B} (f : A -> outcome B) : forall l, (forall x, In x l -> exists y, f x = Ok y) ->
  exists r, mapM f l = Ok r.
Proof.
  induction l as [|a l IH]; intros H; [eexists; reflexivity|]. cbn [mapM].
  destruct (H a (or_introl eq_refl)) as (y & ->). cbn [bind].
  destruct IH as (r & ->); [intros x Hx; apply H; right; exact Hx|]. eexists. reflexivity.
Qed.

Lemma concat_mapM_total {A B} (f : A -> outcome (list B)) : forall l,
  (forall x, In x l -> exists y, f x = Ok y) -> exists r, concat_mapM f l = Ok r.
Proof.
  induction l as [|a l IH]; intros H; [eexists; reflexivity|]. cbn [concat_mapM].
  destruct (H a (or_introl eq_refl)) as (y & ->). cbn [bind].
  destruct IH as (r & ->); [intros x Hx; apply H; right; exact Hx|]. eexists. reflexivity.
Qed.

(* every element is Ok or raises e, one raises: the whole raises e *)
Lemma concat_mapM_raises {A B} (f : A -> outcome (list B)) e : forall l,
  (forall x, In x l -> (exists y, f x = Ok y) \/ f x = Raise e) ->
  (exists x, In x l /\ f x = Raise e) -> concat_mapM f l = Raise e.
Proof.
  induction l as [|a l IH]; intros H (x & Hx & Hr); [destruct Hx|]. cbn [concat_mapM].
  destruct (H a (or_introl eq_refl)) as [(y & Ea)|Ea]; rewrite Ea; cbn [bind]; [|reflexivity].
  destruct Hx as [<-|Hx]; [congruence|].
  rewrite IH; [reflexivity | intros z Hz; apply H; right; exact Hz | exists x; auto].
Qed.

Section Denote.
Variables (c : Conf) (Ld : Loaded).
Hypothesis Hload : load c = Some Ld.
Hypothesis Hwf : wf_loadedb Ld = true.

Local Notation tpls := (r_tpls (l_sid Ld)).

Definition bok (b : string) : Prop :=
  mem_c "?" b = false /\ mem_c ":" b = false /\ mem_c "010" b = false.

(** ** duplicates *)

Definition good (y : sid) : Prop :=
  mem_c "?" (s_string y) = true \/
  (s_type y = "" /\ s_fields y = [] /\ mem_c ":" (s_string y) = false) \/
  wt Ld y.

Lemma count_q_mem s : count "?" s = 0 -> mem_c "?" s = false.
Proof. change "?" with (str1 "?"). rewrite count_str1. apply count_c_0. Qed.

Lemma mem_count_q s : mem_c "?" s = false -> count "?" s = 0.
Proof. change "?" with (str1 "?"). rewrite count_str1. apply mem_c_count0. Qed.

Lemma clean_parts x : clean x = true -> sid_bool x = true /\ mem_c "?" (s_string x) = false.
Proof.
  unfold clean. intros H. apply andb_true_iff in H. destruct H as (H1 & H2).
  apply Nat.eqb_eq in H2. split; [exact H1 | apply count_q_mem; exact H2].
Qed.

Lemma good_clean_wt x : good x -> clean x = true -> wt Ld x.
Proof.
  intros Hg Hc. destruct (clean_parts x Hc) as (Hb & Hq).
  destruct Hg as [H|[(H1 & H2 & _)|H]]; [congruence | | exact H].
  unfold sid_bool in Hb. rewrite H2 in Hb. discriminate.
Qed.

Lemma good_clean_inj x y : good x -> good y -> clean x = true -> uri y = uri x -> y = x.
Proof.
  intros Hx Hy Hc E. pose proof (good_clean_wt x Hx Hc) as Hwx.
  destruct (clean_parts x Hc) as (_ & Hq).
  destruct (wt_parts Ld Hwf x Hwx) as (_ & Hcx & Hqx & _ & _ & Ex).
  assert (Hux : mem_c "?" (uri x) = false).
  { rewrite Ex, !mem_c_app, Hqx, Hq. reflexivity. }
  destruct Hy as [H|[(H1 & H2 & H3)|H]].
  - exfalso. rewrite <- E in Hux. unfold uri in Hux. rewrite mem_c_app, H, orb_true_r in Hux. discriminate.
  - exfalso. unfold uri in E at 1. rewrite H1 in E. cbn [sempty append] in E.
    rewrite Ex in E. rewrite E, mem_c_app in H3. cbn [append mem_c Ascii.eqb] in H3.
    rewrite orb_true_r in H3. discriminate.
  - apply (wt_uri_inj Ld Hwf y x H Hwx E).
Qed.

Lemma nodup_sid_good l x : Forall good l -> clean x = true -> (In x (nodup_sid l) <-> In x l).
Proof.
  intros Hall Hc. split; [apply nodup_sid_incl|]. intros Hin.
  destruct (nodup_sid_In l x Hin) as (y & Hy & E). rewrite Forall_forall in Hall.
  rewrite <- (good_clean_inj x y (Hall x Hin) (Hall y (nodup_sid_incl l y Hy)) Hc E). exact Hy.
Qed.

Lemma nodup_sid_wt l : Forall (wt Ld) l -> forall y, In y (nodup_sid l) <-> In y l.
Proof.
  intros Hall y. split; [apply nodup_sid_incl|]. intros Hin.
  destruct (nodup_sid_In l y Hin) as (z & Hz & E). rewrite Forall_forall in Hall.
  rewrite <- (wt_uri_inj Ld Hwf z y (Hall z (nodup_sid_incl l z Hz)) (Hall y Hin) E). exact Hz.
Qed.

(** ** typed searches *)

Lemma typed_plain_wt b y : typed_plain Ld b y -> wt Ld y /\ s_string y = b.
Proof.
  intros (tp & d & Hin & Ha & ->). split; [apply (wt_typed c Ld Hload Hwf b tp d Hin Ha) | reflexivity].
Qed.

Lemma typed_dstar_wt b y : typed_dstar Ld b y -> wt Ld y /\ exists n, s_string y = kn b n.
Proof.
  intros (lk & n & tp & d & _ & Hin & Ha & _ & ->). split; [apply (wt_typed c Ld Hload Hwf _ tp d Hin Ha)|].
  exists n. reflexivity.
Qed.

Lemma root_plain b : count "/**" b = 1 -> mem_c "?" b = false -> mem_c ":" b = false ->
  mem_c "?" (root_of b) = false /\ mem_c ":" (root_of b) = false.
Proof.
  intros H1 Hq Hc. destruct (b_decomp b H1) as (pre & post & E & -> & _). rewrite E in Hq, Hc.
  apply mem_c_app_false in Hq, Hc. tauto.
Qed.

Lemma typed_of_wt b y : bok b -> ~ body_error Ld b -> typed_of Ld b y ->
  wt Ld y /\ mem_c "?" (s_string y) = false.
Proof.
  intros (Hq & Hc & Hnl) Hne. unfold typed_of. destruct (Nat.eqb (count dstar b) 0) eqn:E.
  - intros H. destruct (typed_plain_wt b y H) as (Hw & ->). auto.
  - intros H. destruct (typed_dstar_wt b y H) as (Hw & n & ->). split; [exact Hw|].
    apply kn_nomem; auto. apply Nat.eqb_neq in E. unfold body_error in Hne. unfold dstar in *.
    destruct (count "/**" b) as [|[|k]]; [congruence | reflexivity | exfalso; apply Hne; left; lia].
Qed.

Lemma wt_nodup y : wt Ld y -> NoDup (map fst (s_fields y)).
Proof.
  intros H. destruct (forced_inv Ld _ _ _ _ H) as (_ & _ & tp & Hin & _ & Ha).
  destruct (accepts_fields Ld Hwf tp _ _ Hin Ha) as (-> & _). apply (tpl_parts Ld Hwf tp Hin).
Qed.

Lemma wt_clean y : wt Ld y -> mem_c "?" (s_string y) = false -> clean y = true.
Proof.
  intros Hw Hq. destruct (wt_parts Ld Hwf y Hw) as (_ & _ & _ & Hd & _ & _). unfold clean.
  rewrite (mem_count_q _ Hq). cbn [Nat.eqb]. rewrite andb_true_r. unfold sid_bool. destruct (s_fields y); [congruence | reflexivity].
Qed.

(** ** a typed search followed by a query *)

(* the result of applying a non empty query to a well typed search *)
Lemma apply_query_wt y q s' t' f' : wt Ld y -> q <> "" ->
  apply_query Ld (s_string y) q (s_type y) (s_fields y) = Ok (s', t', f') ->
  mem_c "?" s' = true \/ wt Ld (mkSid s' t' f').
Proof.
  intros Hw Hq Ha.
  destruct (apply_query_all_or_nothing c Ld Hload Hwf _ _ _ _ _ _ _ (wt_nodup y Hw) Ha Hq)
    as [(-> & _ & _) | (ov & _ & _ & _ & Hf)].
  - left. rewrite mem_c_app. cbn [append mem_c Ascii.eqb]. apply orb_true_r.
  - right. exact Hf.
Qed.

Lemma Sid_query_typed y q : wt Ld y -> mem_c "?" (s_string y) = false -> q <> "" ->
  Sid Ld (uri y ++ "?" ++ q) =
  (do '(s', t', f') <- apply_query Ld (s_string y) q (s_type y) (s_fields y); Ok (mkSid s' t' f')).
Proof.
  intros Hw Hq Hne. destruct (wt_parts Ld Hwf y Hw) as (Htne & Hc & Hqt & Hd & Hs & Eu).
  rewrite Eu. unfold Sid, sid_factory.
  change ((s_type y ++ ":" ++ s_string y) ++ "?" ++ q) with ((s_type y ++ ":" ++ s_string y) ++ String "?" q).
  rewrite sempty_app_r. unfold sid_of_string.
  rewrite (split1_c_app "?" (s_type y ++ ":" ++ s_string y) q).
  2:{ rewrite !mem_c_app, Hqt, Hq. reflexivity. }
  cbv beta iota zeta.
  change (s_type y ++ ":" ++ s_string y) with (s_type y ++ String ":" (s_string y)).
  rewrite (split1_c_app ":" _ _ Hc).
  rewrite (sid_to_dict_forced c Ld _ _ Hload Hwf Htne). unfold wt in Hw. rewrite Hw. cbn [bind].
  destruct (s_fields y) eqn:Ed; [congruence|]. rewrite andb_false_r.
  apply sempty_false in Hne. rewrite Hne. reflexivity.
Qed.

Definition readable (u : string) : Prop := u = "" \/ exists nd, to_dict u = Ok nd.

(* the string handed to [expand]: a body followed by the query, if any *)
Definition qs (b u : string) : string := b ++ (if sempty u then "" else "?" ++ u).

(* what the factory makes of a typed search followed by the query u *)
Definition qF (u : string) (y : sid) : sid :=
  if sempty u then y else
  match apply_query Ld (s_string y) u (s_type y) (s_fields y) with
  | Ok (s', t', f') => mkSid s' t' f'
  | Raise _ => y
  end.

Lemma split_query_qs b u : mem_c "?" b = false -> split_query (qs b u) = (b, u).
Proof.
  intros Hb. unfold qs. destruct (sempty u) eqn:E.
  - destruct u; [|discriminate]. rewrite app_nil_r_s. apply split_query_nomem. exact Hb.
  - unfold split_query. change (b ++ "?" ++ u) with (b ++ String "?" u). rewrite (split1_c_app "?" b u Hb). reflexivity.
Qed.

Lemma count_qs b u : mem_c "/" u = false -> count "/**" (qs b u) = count "/**" b.
Proof.
  intros Hu. unfold qs. destruct (sempty u); [rewrite app_nil_r_s; reflexivity|].
  change (b ++ "?" ++ u) with (b ++ String "?" u).
  rewrite (count_app_sep "/" "**" "?" eq_refl (String.length b) b (le_n _) u).
  rewrite (count_nomem "/" "**" u Hu). lia.
Qed.

Lemma apply_query_readable y u : wt Ld y -> (exists nd, to_dict u = Ok nd) ->
  exists res, apply_query Ld (s_string y) u (s_type y) (s_fields y) = Ok res.
Proof.
  intros Hw (nd & Hnd). destruct (wt_parts Ld Hwf y Hw) as (Htne & _).
  assert (Hu : exists ov, update (s_fields y) u = Ok ov).
  { unfold update. rewrite Hnd. cbn [bind]. eexists. reflexivity. }
  destruct Hu as (ov & Hu).
  apply (apply_query_never_raises c Ld Hload Hwf (s_string y) u (s_type y) (s_fields y) ov
           (fun E0 => False_ind _ (Htne E0)) Hu).
Qed.

Lemma HF_qF u : readable u -> forall k tp d, In tp tpls -> accepts tp k = Some d -> mem_c "?" k = false ->
  Sid Ld (typed_uri (tp_name tp) k u) = Ok (qF u (mkSid k (tp_name tp) d)).
Proof.
  intros Hr k tp d Hin Ha Hq. unfold qF. destruct (sempty u) eqn:E.
  - destruct u; [|discriminate]. apply (Sid_typed c Ld Hload Hwf k tp d Hin Ha Hq).
  - pose proof (wt_typed c Ld Hload Hwf k tp d Hin Ha) as Hw. set (y := mkSid k (tp_name tp) d) in *.
    destruct Hr as [->|Hr]; [discriminate|].
    destruct (wt_parts Ld Hwf y Hw) as (_ & _ & _ & _ & _ & Eu).
    assert (Et : typed_uri (tp_name tp) k u = uri y ++ "?" ++ u).
    { unfold typed_uri. rewrite E, Eu. cbn [s_type s_string y]. rewrite !app_assoc_s. reflexivity. }
    rewrite Et. rewrite (Sid_query_typed y u Hw Hq) by (apply sempty_false; exact E).
    destruct (apply_query_readable y u Hw Hr) as ([[s' t'] f'] & Hres). rewrite Hres. reflexivity.
Qed.

Lemma qF_good u y : wt Ld y -> good (qF u y).
Proof.
  intros Hw. unfold qF. destruct (sempty u) eqn:E; [right; right; exact Hw|].
  destruct (apply_query Ld _ _ _ _) as [[[s' t'] f']|e] eqn:Ea; [|right; right; exact Hw].
  apply sempty_false in E. destruct (apply_query_wt y u s' t' f' Hw E Ea) as [H|H]; [left; exact H | right; right; exact H].
Qed.

(* [qF] and the declarative [qapplied] *)
Lemma qF_applied u y : wt Ld y -> mem_c "?" (s_string y) = false -> readable u ->
  clean (qF u y) = true -> qapplied Ld u y (qF u y).
Proof.
  intros Hw Hq Hr Hc. unfold qapplied, qF in *. destruct (sempty u) eqn:E; [reflexivity|].
  destruct Hr as [->|Hr]; [discriminate|].
  destruct (apply_query_readable y u Hw Hr) as ([[s' t'] f'] & Hres). rewrite Hres in *.
  unfold query_applied. cbn [s_string s_type s_fields]. split; [exact Hres|].
  unfold clean in Hc. apply andb_true_iff in Hc. destruct Hc as (_ & Hc). apply Nat.eqb_eq in Hc. exact Hc.
Qed.

Lemma applied_qF u y x1 : wt Ld y -> qapplied Ld u y x1 -> mem_c "?" (s_string y) = false ->
  x1 = qF u y /\ clean x1 = true.
Proof.
  intros Hw Ha Hq. unfold qapplied, qF in *. destruct (sempty u) eqn:E.
  - subst x1. split; [reflexivity | apply wt_clean; assumption].
  - destruct Ha as (Ha & Hc). rewrite Ha. split; [destruct x1; reflexivity|].
    apply sempty_false in E. destruct (apply_query_wt y u _ _ _ Hw E Ha) as [H1|H1].
    + apply count_q_mem in Hc. congruence.
    + replace x1 with (mkSid (s_string x1) (s_type x1) (s_fields x1)) by (destruct x1; reflexivity).
      apply wt_clean; [exact H1 | apply count_q_mem; exact Hc].
Qed.

Lemma Sid_fallback b u : bok b -> natural Ld b = None -> (u <> "" -> b <> "") ->
  Sid Ld (qs b u) = Ok (mkSid (qs b u) "" []).
Proof.
  intros (Hq & Hc & _) Hn Hb. unfold qs. destruct (sempty u) eqn:E.
  - rewrite app_nil_r_s. rewrite (Sid_plain c Ld Hload Hwf b Hq Hc), Hn. reflexivity.
  - apply sempty_false in E. specialize (Hb E). unfold Sid, sid_factory.
    change (b ++ "?" ++ u) with (b ++ String "?" u). rewrite sempty_app_r. unfold sid_of_string.
    rewrite (split1_c_app "?" b u Hq). cbv beta iota zeta. rewrite (split1_c_nomem ":" b Hc).
    rewrite (sid_to_dict_natural c Ld b Hload Hwf), Hn. cbn [bind]. unfold truthy.
    apply sempty_false in E, Hb. rewrite E, Hb. reflexivity.
Qed.

(** ** [expand] *)

(* what a result list of [expand] on (body b, query u) must satisfy *)
Definition r_ok (b u : string) (r : list sid) : Prop :=
  Forall good r /\
  (forall y, typed_of Ld b y -> clean (qF u y) = true -> In (qF u y) r) /\
  (forall x1, In x1 r -> clean x1 = false \/ exists y, typed_of Ld b y /\ x1 = qF u y).

Lemma expand_dstar_q b u : bok b -> count "/**" b = 1 -> mem_c "/" u = false -> readable u ->
  match leaf_of Ld (root_of b) with
  | None => expand Ld (qs b u) = Raise SpilException
  | Some lk => exists r, expand Ld (qs b u) = Ok r /\ r_ok b u r
  end.
Proof.
  intros (Hq & Hc & Hnl) H1 Hu Hr. unfold expand. rewrite (count_qs b u Hu), H1. cbn [Nat.eqb Nat.ltb Nat.leb].
  rewrite (split_query_qs b u Hq). change (hd "" (split_s "/**" b)) with (root_of b).
  destruct (root_plain b H1 Hq Hc) as (Hrq & Hrc).
  rewrite (Sid_plain c Ld Hload Hwf _ Hrq Hrc). cbn [bind]. rewrite (basetype_Sid_root Ld Hwf).
  unfold leaf_of. destruct (natural Ld (root_of b)) as [[rt rd]|] eqn:En; [|reflexivity].
  destruct (dget (c_leaf_keys (l_conf Ld)) (basetype_of Ld rt)) as [lk|] eqn:El; [|reflexivity].
  destruct (sempty lk) eqn:Elk; [reflexivity|].
  rewrite (expand_fold_eq c Ld Hload Hwf b lk Hq Hnl u (qF u) (HF_qF u Hr) H1). cbn [bind].
  destruct (fold_left (estep Ld b lk (qF u)) tpls ([], [], [])) as [[tested found] result] eqn:Ef.
  pose proof (efold_result c Ld Hload Hwf b lk (qF u) H1 tested found result Ef) as Hres.
  assert (Hgood : Forall good result).
  { apply Forall_forall. intros y Hy. apply Hres in Hy. destruct Hy as (n & tp & d & Hin & Ha & _ & ->).
    apply qF_good. apply (wt_typed c Ld Hload Hwf _ tp d Hin Ha). }
  assert (Hty : forall y, typed_of Ld b y <->
            exists n tp d, In tp tpls /\ accepts tp (kn b n) = Some d /\ tpl_last_key tp = Some lk /\
                           y = mkSid (kn b n) (tp_name tp) d).
  { intros y. unfold typed_of, dstar. rewrite H1. cbn [Nat.eqb]. unfold typed_dstar, leaf_of. rewrite En, El, Elk.
    unfold kn, dstar. split.
    - intros (lk' & n & tp & d & E & H). inversion E; subst lk'. exists n, tp, d. tauto.
    - intros (n & tp & d & H). exists lk, n, tp, d. tauto. }
  exists (nodup_sid result). split; [reflexivity|]. split; [|split].
  - apply Forall_forall. intros y Hy. rewrite Forall_forall in Hgood. apply Hgood. apply (nodup_sid_incl _ _ Hy).
  - intros y Hy Hcl. apply (nodup_sid_good result _ Hgood Hcl). apply Hres. apply Hty in Hy.
    destruct Hy as (n & tp & d & H & H' & H'' & ->). exists n, tp, d. auto.
  - intros x1 Hx. right. apply nodup_sid_incl in Hx. apply Hres in Hx. destruct Hx as (n & tp & d & H & H' & H'' & ->).
    eexists. split; [|reflexivity]. apply Hty. exists n, tp, d. auto.
Qed.

Lemma expand_many_q b u : mem_c "/" u = false -> 1 < count "/**" b -> expand Ld (qs b u) = Raise SpilException.
Proof.
  intros Hu H. unfold expand. rewrite (count_qs b u Hu).
  destruct (Nat.eqb (count "/**" b) 0) eqn:E; [apply Nat.eqb_eq in E; lia|].
  apply Nat.ltb_lt in H. rewrite H. reflexivity.
Qed.

Lemma expand_plain_q b u : bok b -> count "/**" b = 0 -> mem_c "/" u = false -> readable u ->
  (u <> "" -> b <> "") ->
  exists r, expand Ld (qs b u) = Ok r /\ r_ok b u r.
Proof.
  intros Hb H0 Hu Hr Hbne. pose proof Hb as (Hq & Hc & Hnl). unfold expand. rewrite (count_qs b u Hu), H0. cbn [Nat.eqb].
  rewrite (simple_typing_gen c Ld Hload Hwf (qs b u) b u (qF u) (mkSid (qs b u) "" []) Hq Hc Hnl (split_query_qs b u Hq)).
  2:{ intros tp d Hin Ha. apply (HF_qF u Hr b tp d Hin Ha Hq). }
  2:{ intros E. apply Sid_fallback; [exact Hb | apply (typed_list_nil_natural Ld); exact E | exact Hbne]. }
  assert (Hty : forall y, typed_of Ld b y <-> In y (typed_list Ld b)).
  { intros y. unfold typed_of, dstar. rewrite H0. cbn [Nat.eqb]. symmetry. apply typed_list_In. }
  assert (Hgood : Forall good (map (qF u) (typed_list Ld b))).
  { apply Forall_forall. intros x Hx. apply in_map_iff in Hx. destruct Hx as (y & <- & Hy).
    apply qF_good. apply typed_list_In in Hy. apply (typed_plain_wt b y Hy). }
  destruct (typed_list Ld b) as [|y0 l0] eqn:E.
  - eexists. split; [reflexivity|]. split; [|split].
    + constructor; [|constructor]. unfold qs. destruct (sempty u) eqn:Eu.
      * right. left. cbn [s_type s_fields s_string]. rewrite app_nil_r_s. auto.
      * left. cbn [s_string]. rewrite mem_c_app. cbn [append mem_c Ascii.eqb]. apply orb_true_r.
    + intros y Hy. apply Hty in Hy. destruct Hy.
    + intros x1 [<-|[]]. left. reflexivity.
  - rewrite <- E in *. eexists. split; [reflexivity|]. split; [|split].
    + apply Forall_forall. intros y Hy. rewrite Forall_forall in Hgood. apply Hgood. apply (nodup_sid_incl _ _ Hy).
    + intros y Hy Hcl. apply (nodup_sid_good _ _ Hgood Hcl). apply in_map. apply Hty. exact Hy.
    + intros x1 Hx. right. apply nodup_sid_incl in Hx. apply in_map_iff in Hx. destruct Hx as (y & <- & Hy).
      exists y. split; [apply Hty; exact Hy | reflexivity].
Qed.

Lemma body_error_dec b : body_error Ld b \/ ~ body_error Ld b.
Proof.
  unfold body_error. destruct (Nat.ltb 1 (count dstar b)) eqn:E1.
  - left. left. apply Nat.ltb_lt. exact E1.
  - apply Nat.ltb_ge in E1. destruct (Nat.eq_dec (count dstar b) 1) as [E|E].
    + destruct (leaf_of Ld (root_of b)) eqn:El.
      * right. intros [H|(_ & H)]; [lia | discriminate].
      * left. right. auto.
    + right. intros [H|(H & _)]; lia.
Qed.

Theorem expand_spec_q b u : bok b -> mem_c "/" u = false -> readable u -> (u <> "" -> b <> "") ->
  (body_error Ld b -> expand Ld (qs b u) = Raise SpilException) /\
  (~ body_error Ld b -> exists r, expand Ld (qs b u) = Ok r /\ r_ok b u r).
Proof.
  intros Hb Hu Hr Hbne. unfold body_error, dstar. split.
  - intros [H|(H1 & Hl)]; [apply expand_many_q; assumption|].
    pose proof (expand_dstar_q b u Hb H1 Hu Hr) as H. rewrite Hl in H. exact H.
  - intros Hne. destruct (count "/**" b) as [|[|n]] eqn:Ec.
    + apply expand_plain_q; assumption.
    + pose proof (expand_dstar_q b u Hb Ec Hu Hr) as H.
      destruct (leaf_of Ld (root_of b)) as [lk|] eqn:El; [exact H | exfalso; apply Hne; right; auto].
    + exfalso. apply Hne. left. lia.
Qed.

(** ** [type_narrow] *)

Hypothesis Hconf : unfold_conf_okb Ld = true.

Lemma narrow_typed_off k x1 : narrow_with Ld (c_typed_narrowing (l_conf Ld)) (Some k) x1 = Ok x1.
Proof.
  unfold narrow_with. destruct (dget (c_typed_narrowing (l_conf Ld)) k) as [q|] eqn:E; [|reflexivity].
  rewrite (typed_narrowing_off Ld Hconf k q E). reflexivity.
Qed.

Lemma type_narrow_hasq x : mem_c "?" (s_string x) = true -> type_narrow Ld x = Ok x.
Proof.
  intros H. unfold type_narrow. change "?" with (str1 "?"). rewrite count_str1, count_c_pos, H. reflexivity.
Qed.

Lemma type_narrow_unclean x : good x -> clean x = false -> type_narrow Ld x = Ok x.
Proof.
  intros Hg Hc. destruct (mem_c "?" (s_string x)) eqn:Eq; [apply type_narrow_hasq; exact Eq|].
  destruct Hg as [H|[(H1 & H2 & H3)|H]]; [congruence | | rewrite (wt_clean x H Eq) in Hc; discriminate].
  unfold type_narrow. rewrite (mem_count_q _ Eq). cbn [Nat.ltb Nat.leb].
  unfold basetype. rewrite H1. cbn [sempty narrow_with bind]. apply narrow_typed_off.
Qed.

Lemma type_narrow_typed y : wt Ld y -> mem_c "?" (s_string y) = false ->
  type_narrow Ld y =
  if sempty (narrowing_query Ld (s_type y)) then Ok y
  else (do '(s', t', f') <- apply_query Ld (s_string y) (narrowing_query Ld (s_type y)) (s_type y) (s_fields y);
        Ok (mkSid s' t' f')).
Proof.
  intros Hw Hq. destruct (wt_parts Ld Hwf y Hw) as (Htne & _ & _ & Hd & _ & _).
  unfold type_narrow. rewrite (mem_count_q _ Hq). cbn [Nat.ltb Nat.leb].
  unfold basetype. apply sempty_false in Htne. rewrite Htne.
  unfold narrow_with at 1. unfold narrowing_query.
  destruct (dget (c_base_narrowing (l_conf Ld)) (basetype_of Ld (s_type y))) as [q|]; cbn [bind sempty].
  2:{ apply narrow_typed_off. }
  destruct (sempty q) eqn:Eq; cbn [bind]; [apply narrow_typed_off|].
  unfold get_with_query. assert (Hb : sid_bool y = true) by (unfold sid_bool; destruct (s_fields y); [congruence | reflexivity]).
  rewrite Hb, andb_false_r, Eq.
  rewrite (Sid_query_typed y q Hw Hq) by (apply sempty_false; exact Eq).
  destruct (apply_query Ld (s_string y) q (s_type y) (s_fields y)) as [[[s' t'] f']|e]; cbn [bind]; [|reflexivity].
  apply narrow_typed_off.
Qed.

Lemma type_narrow_good y x : wt Ld y -> mem_c "?" (s_string y) = false -> type_narrow Ld y = Ok x -> good x.
Proof.
  intros Hw Hq H. rewrite (type_narrow_typed y Hw Hq) in H.
  destruct (sempty (narrowing_query Ld (s_type y))) eqn:E.
  - inversion H; subst. right. right. exact Hw.
  - destruct (apply_query Ld _ _ _ _) as [[[s' t'] f']|e] eqn:Ea; cbn [bind] in H; [|discriminate].
    inversion H; subst x. apply sempty_false in E.
    destruct (apply_query_wt y _ s' t' f' Hw E Ea) as [H1|H1]; [left; exact H1 | right; right; exact H1].
Qed.

(* [type_narrow] on a typed search is the declarative narrowing *)
Lemma type_narrow_narrowed y x : wt Ld y -> mem_c "?" (s_string y) = false ->
  (type_narrow Ld y = Ok x /\ clean x = true) <-> narrowed Ld y x.
Proof.
  intros Hw Hq. rewrite (type_narrow_typed y Hw Hq). unfold narrowed.
  destruct (sempty (narrowing_query Ld (s_type y))) eqn:E.
  - split.
    + intros (H & _). inversion H. reflexivity.
    + intros ->. split; [reflexivity | apply wt_clean; assumption].
  - apply sempty_false in E. unfold query_applied. split.
    + intros (H & Hc). destruct (apply_query Ld _ _ _ _) as [[[s' t'] f']|e] eqn:Ea; cbn [bind] in H; [|discriminate].
      inversion H; subst x. cbn [s_string s_type s_fields]. split; [reflexivity|].
      unfold clean in Hc. apply andb_true_iff in Hc. destruct Hc as (_ & Hc). apply Nat.eqb_eq in Hc. exact Hc.
    + intros (Ha & Hc). rewrite Ha. cbn [bind]. split; [destruct x; reflexivity|].
      destruct (apply_query_wt y _ _ _ _ Hw E Ha) as [H1|H1].
      * apply count_q_mem in Hc. congruence.
      * replace x with (mkSid (s_string x) (s_type x) (s_fields x)) by (destruct x; reflexivity).
        apply wt_clean; [exact H1 | apply count_q_mem; exact Hc].
Qed.

Lemma type_narrow_total y : narrowing_readable Ld = true -> wt Ld y -> mem_c "?" (s_string y) = false ->
  exists x, type_narrow Ld y = Ok x.
Proof.
  intros Hr Hw Hq. rewrite (type_narrow_typed y Hw Hq). unfold narrowing_query.
  destruct (dget (c_base_narrowing (l_conf Ld)) (basetype_of Ld (s_type y))) as [q|] eqn:E; [|eexists; reflexivity].
  destruct (sempty q); [eexists; reflexivity|].
  apply dget_Some_In in E. unfold narrowing_readable in Hr. rewrite forallb_forall in Hr. specialize (Hr _ E).
  cbn [snd] in Hr. destruct (to_dict q) as [nd|] eqn:Et; [|discriminate].
  destruct (apply_query_readable y q Hw (ex_intro _ nd Et)) as ([[s' t'] f'] & Hres).
  rewrite Hres. eexists. reflexivity.
Qed.

(** ** the back end of the pipeline: [expand], [type_narrow], sort, filter *)

Lemma in_sorted_filter s4 x :
  In x (filter (fun x => sid_bool x && Nat.eqb (count "?" (s_string x)) 0) (sort_sids (nodup_sid s4))) <->
  clean x = true /\ In x (nodup_sid s4).
Proof.
  rewrite filter_In. fold (clean x). split; intros (H1 & H2).
  - split; [exact H2|]. apply (Permutation_in _ (Permutation_sym (sort_sids_perm _)) H1).
  - split; [|exact H1]. apply (Permutation_in _ (sort_sids_perm _) H2).
Qed.

Section BackEnd.
Variables (s2 B U : list string).
Hypothesis Hs2 : forall r, In r s2 <-> exists b u, In b B /\ In u U /\ r = qs b u.
Hypothesis HB : forall b, In b B -> bok b.
Hypothesis HU : forall u, In u U -> readable u /\ mem_c "/" u = false.
Hypothesis HBU : forall b u, In b B -> In u U -> u <> "" -> b <> "".

Lemma expand_spec_BU b u : In b B -> In u U ->
  (body_error Ld b -> expand Ld (qs b u) = Raise SpilException) /\
  (~ body_error Ld b -> exists r, expand Ld (qs b u) = Ok r /\ r_ok b u r).
Proof.
  intros Hb Hu. destruct (HU u Hu) as (Hr & Hsl).
  apply expand_spec_q; [apply HB; exact Hb | exact Hsl | exact Hr | apply HBU; assumption].
Qed.

Theorem back_end_spec s3 s4 :
  concat_mapM (expand Ld) s2 = Ok s3 -> mapM (type_narrow Ld) s3 = Ok s4 ->
  forall x,
    In x (filter (fun x => sid_bool x && Nat.eqb (count "?" (s_string x)) 0) (sort_sids (nodup_sid s4))) <->
    exists b u y x1, In b B /\ In u U /\ typed_of Ld b y /\ qapplied Ld u y x1 /\ narrowed Ld x1 x.
Proof.
  intros E3 E4.
  assert (Hne : forall b u, In b B -> In u U -> ~ body_error Ld b).
  { intros b u Hb Hu Herr.
    assert (Hin : In (qs b u) s2) by (apply Hs2; exists b, u; auto).
    destruct (concat_mapM_In_fwd _ _ _ _ E3 Hin) as (ys & Hys & _).
    destruct (expand_spec_BU b u Hb Hu) as (Hr & _). rewrite (Hr Herr) in Hys. discriminate. }
  assert (H3 : forall x1, In x1 s3 -> good x1 /\
            (clean x1 = false \/ exists b u y, In b B /\ In u U /\ typed_of Ld b y /\ x1 = qF u y)).
  { intros x1 Hx. destruct (concat_mapM_In _ _ _ _ E3 Hx) as (r0 & ys & Hr0 & Eb & Hin).
    apply Hs2 in Hr0. destruct Hr0 as (b & u & Hb & Hu & ->).
    destruct (expand_spec_BU b u Hb Hu) as (_ & Hok). destruct (Hok (Hne b u Hb Hu)) as (r & Er & Hg & _ & Hr).
    rewrite Er in Eb. inversion Eb; subst ys. split; [rewrite Forall_forall in Hg; apply Hg; exact Hin|].
    destruct (Hr x1 Hin) as [H|(y & Hy & ->)]; [left; exact H | right; exists b, u, y; auto]. }
  assert (H3' : forall b u y, In b B -> In u U -> typed_of Ld b y -> clean (qF u y) = true -> In (qF u y) s3).
  { intros b u y Hb Hu Hy Hcl.
    assert (Hin : In (qs b u) s2) by (apply Hs2; exists b, u; auto).
    destruct (concat_mapM_In_fwd _ _ _ _ E3 Hin) as (ys & Eb & Hincl).
    destruct (expand_spec_BU b u Hb Hu) as (_ & Hok). destruct (Hok (Hne b u Hb Hu)) as (r & Er & _ & Hr & _).
    rewrite Er in Eb. inversion Eb; subst ys. apply Hincl. apply Hr; assumption. }
  assert (Hgood : Forall good s4).
  { apply Forall_forall. intros x Hx. destruct (mapM_In _ _ _ _ E4 Hx) as (x1 & Hx1 & Ex).
    destruct (H3 x1 Hx1) as (Hg & _). destruct (clean x1) eqn:Ecl.
    - destruct (clean_parts x1 Ecl) as (_ & Hq). apply (type_narrow_good x1 x (good_clean_wt x1 Hg Ecl) Hq Ex).
    - rewrite (type_narrow_unclean x1 Hg Ecl) in Ex. inversion Ex; subst. exact Hg. }
  intros x. rewrite in_sorted_filter. split.
  - intros (Hc & Hx). apply nodup_sid_incl in Hx. destruct (mapM_In _ _ _ _ E4 Hx) as (x1 & Hx1 & Ex).
    destruct (H3 x1 Hx1) as (Hg & Hcases). destruct (clean x1) eqn:Ecl.
    + destruct Hcases as [H|(b & u & y & Hb & Hu & Hy & E1)]; [discriminate|].
      destruct (typed_of_wt b y (HB b Hb) (Hne b u Hb Hu) Hy) as (Hw & Hq).
      exists b, u, y, x1. split; [exact Hb|]. split; [exact Hu|]. split; [exact Hy|]. split.
      * rewrite E1. apply qF_applied; [exact Hw | exact Hq | apply (HU u Hu) | rewrite <- E1; exact Ecl].
      * destruct (clean_parts x1 Ecl) as (_ & Hq1).
        apply (type_narrow_narrowed x1 x (good_clean_wt x1 Hg Ecl) Hq1). auto.
    + rewrite (type_narrow_unclean x1 Hg Ecl) in Ex. inversion Ex; subst. congruence.
  - intros (b & u & y & x1 & Hb & Hu & Hy & Ha & Hn).
    destruct (typed_of_wt b y (HB b Hb) (Hne b u Hb Hu) Hy) as (Hw & Hq).
    destruct (applied_qF u y x1 Hw Ha Hq) as (E1 & Hcl1).
    assert (Hin1 : In x1 s3) by (rewrite E1; apply (H3' b u y Hb Hu Hy); rewrite <- E1; exact Hcl1).
    destruct (H3 x1 Hin1) as (Hg1 & _). destruct (clean_parts x1 Hcl1) as (_ & Hq1).
    apply (type_narrow_narrowed x1 x (good_clean_wt x1 Hg1 Hcl1) Hq1) in Hn. destruct Hn as (Ex & Hc).
    split; [exact Hc|]. apply (nodup_sid_good s4 x Hgood Hc).
    destruct (mapM_In_fwd _ _ _ _ E4 Hin1) as (x' & Ex' & Hin). rewrite Ex in Ex'. inversion Ex'; subst x'. exact Hin.
Qed.

Theorem back_end_raises : (exists b u, In b B /\ In u U /\ body_error Ld b) ->
  concat_mapM (expand Ld) s2 = Raise SpilException.
Proof.
  intros (b & u & Hb & Hu & Herr). apply concat_mapM_raises.
  - intros r Hr. apply Hs2 in Hr. destruct Hr as (b' & u' & Hb' & Hu' & ->).
    destruct (expand_spec_BU b' u' Hb' Hu') as (Hr & Hok).
    destruct (body_error_dec b') as [He|He]; [right; apply Hr; exact He|].
    left. destruct (Hok He) as (r & Er & _). exists r. exact Er.
  - exists (qs b u). split; [apply Hs2; exists b, u; auto|]. apply (expand_spec_BU b u Hb Hu). exact Herr.
Qed.

Theorem back_end_total : (forall b, In b B -> ~ body_error Ld b) -> narrowing_readable Ld = true ->
  exists s3 s4, concat_mapM (expand Ld) s2 = Ok s3 /\ mapM (type_narrow Ld) s3 = Ok s4.
Proof.
  intros Hne Hr.
  destruct (concat_mapM_total (expand Ld) s2) as (s3 & E3).
  { intros r0 Hr0. apply Hs2 in Hr0. destruct Hr0 as (b & u & Hb & Hu & ->).
    destruct (expand_spec_BU b u Hb Hu) as (_ & Hok). destruct (Hok (Hne b Hb)) as (r & Er & _). exists r. exact Er. }
  exists s3. destruct (mapM_total (type_narrow Ld) s3) as (s4 & E4).
  { intros x1 Hx. destruct (concat_mapM_In _ _ _ _ E3 Hx) as (r0 & ys & Hr0 & Eb & Hin).
    apply Hs2 in Hr0. destruct Hr0 as (b & u & Hb & Hu & ->).
    destruct (expand_spec_BU b u Hb Hu) as (_ & Hok). destruct (Hok (Hne b Hb)) as (r & Er & Hg & _ & _).
    rewrite Er in Eb. inversion Eb; subst ys. rewrite Forall_forall in Hg. specialize (Hg x1 Hin).
    destruct (clean x1) eqn:Ecl.
    - destruct (clean_parts x1 Ecl) as (_ & Hq). apply (type_narrow_total x1 Hr (good_clean_wt x1 Hg Ecl) Hq).
    - exists x1. apply (type_narrow_unclean x1 Hg Ecl). }
  exists s4. auto.
Qed.

End BackEnd.

(** ** query-free searches (stages 1 and 2) *)

Lemma front s : search_ok s = true ->
  extensions Ld s = Ok (extended Ld s) /\
  exists s2, or_op (extended Ld s) = Ok s2 /\ forall r, In r s2 <-> In r (bodies Ld s).
Proof.
  intros Hs. assert (Hq : mem_c "?" s = false).
  { unfold search_ok, plain_str in Hs. repeat (apply andb_true_iff in Hs; destruct Hs as (Hs & ?)).
    apply negb_true_iff in Hs. exact Hs. }
  split; [apply extensions_plain; exact Hq|].
  destruct (or_op_plain (extended Ld s)) as (s2 & H2 & Hin).
  - apply extended_noquery; [exact Hq|]. intros x Hx. apply (member_ok_parts x (is_member_ok Ld Hconf x Hx)).
  - apply extended_no_marker; assumption.
  - exists s2. split; [exact H2|]. intros r. rewrite Hin. apply choices_bodies. exact Hconf.
Qed.

Lemma bodies_bok s b : search_ok s = true -> In b (bodies Ld s) -> bok b.
Proof. intros Hs Hb. destruct (bodies_plain Ld Hconf s b Hs Hb) as (H1 & H2 & H3 & _). repeat split; assumption. Qed.

Lemma s2_noquery s s2 : (forall r, In r s2 <-> In r (bodies Ld s)) ->
  forall r, In r s2 <-> exists b u, In b (bodies Ld s) /\ In u [""] /\ r = qs b u.
Proof.
  intros H r. rewrite H. split.
  - intros Hr. exists r, "". split; [exact Hr|]. split; [left; reflexivity|]. unfold qs. cbn [sempty]. rewrite app_nil_r_s. reflexivity.
  - intros (b & u & Hb & [<-|[]] & ->). unfold qs. cbn [sempty]. rewrite app_nil_r_s. exact Hb.
Qed.

Lemma U_noquery u : In u [""] -> readable u /\ mem_c "/" u = false.
Proof. intros [<-|[]]. split; [left; reflexivity | reflexivity]. Qed.

Theorem unfold_noquery_spec s l : search_ok s = true -> unfold_search Ld s false false = Ok l ->
  forall x, In x l <-> exists b y, In b (bodies Ld s) /\ typed_of Ld b y /\ narrowed Ld y x.
Proof.
  intros Hs H. destruct (front s Hs) as (E1 & s2 & E2 & Hs2).
  unfold unfold_search, apply_unfolders in H. rewrite E1 in H. cbn [bind] in H. rewrite E2 in H. cbn [bind] in H.
  destruct (concat_mapM (expand Ld) s2) as [s3|] eqn:E3; [|discriminate]. cbn [bind] in H.
  destruct (mapM (type_narrow Ld) s3) as [s4|] eqn:E4; [|discriminate]. cbn [bind] in H.
  inversion H; subst l. clear H. intros x.
  rewrite (back_end_spec s2 (bodies Ld s) [""] (s2_noquery s s2 Hs2) (fun b => bodies_bok s b Hs) U_noquery
             (fun b u _ Hu Hne => match Hu with or_introl E => False_ind _ (Hne (eq_sym E)) | or_intror F => False_ind _ F end)
             s3 s4 E3 E4 x).
  split.
  - intros (b & u & y & x1 & Hb & [<-|[]] & Hy & Ha & Hn). unfold qapplied in Ha. cbn [sempty] in Ha. subst x1.
    exists b, y. auto.
  - intros (b & y & Hb & Hy & Hn). exists b, "", y, y. split; [exact Hb|]. split; [left; reflexivity|].
    split; [exact Hy|]. split; [reflexivity | exact Hn].
Qed.

(* when it raises, when it does not *)
Theorem unfold_noquery_errors s : search_ok s = true ->
  ((exists b, In b (bodies Ld s) /\ body_error Ld b) -> unfold_search Ld s false false = Raise SpilException) /\
  ((forall b, In b (bodies Ld s) -> ~ body_error Ld b) -> narrowing_readable Ld = true ->
   exists l, unfold_search Ld s false false = Ok l).
Proof.
  intros Hs. destruct (front s Hs) as (E1 & s2 & E2 & Hs2).
  unfold unfold_search, apply_unfolders. rewrite E1. cbn [bind]. rewrite E2. cbn [bind]. split.
  - intros (b & Hb & Herr).
    rewrite (back_end_raises s2 (bodies Ld s) [""] (s2_noquery s s2 Hs2) (fun b => bodies_bok s b Hs) U_noquery
               (fun b u _ Hu Hne => match Hu with or_introl E => False_ind _ (Hne (eq_sym E)) | or_intror F => False_ind _ F end)).
    + reflexivity.
    + exists b, "". split; [exact Hb|]. split; [left; reflexivity | exact Herr].
  - intros Hne Hr.
    destruct (back_end_total s2 (bodies Ld s) [""] (s2_noquery s s2 Hs2) (fun b => bodies_bok s b Hs) U_noquery
               (fun b u _ Hu Hne => match Hu with or_introl E => False_ind _ (Hne (eq_sym E)) | or_intror F => False_ind _ F end)
               Hne Hr) as (s3 & s4 & E3 & E4).
    rewrite E3. cbn [bind]. rewrite E4. cbn [bind]. eexists. reflexivity.
Qed.

(** ** Stage 1: no body contains "/**" *)

Theorem unfold_plain_spec s l : search_ok s = true ->
  (forall b, In b (bodies Ld s) -> count "/**" b = 0) ->
  unfold_search Ld s false false = Ok l ->
  forall x, In x l <->
    exists b tp d, In b (bodies Ld s) /\ In tp tpls /\ accepts tp b = Some d /\
                   narrowed Ld (mkSid b (tp_name tp) d) x.
Proof.
  intros Hs H0 H x. rewrite (unfold_noquery_spec s l Hs H x). split.
  - intros (b & y & Hb & Ht & Hn). unfold typed_of, dstar in Ht. rewrite (H0 b Hb) in Ht. cbn [Nat.eqb] in Ht.
    destruct Ht as (tp & d & Hin & Ha & ->). exists b, tp, d. auto.
  - intros (b & tp & d & Hb & Hin & Ha & Hn). exists b, (mkSid b (tp_name tp) d). split; [exact Hb|].
    split; [|exact Hn]. unfold typed_of, dstar. rewrite (H0 b Hb). cbn [Nat.eqb]. exists tp, d. auto.
Qed.

Theorem unfold_plain_total s : search_ok s = true ->
  (forall b, In b (bodies Ld s) -> count "/**" b = 0) -> narrowing_readable Ld = true ->
  exists l, unfold_search Ld s false false = Ok l.
Proof.
  intros Hs H0 Hr. apply (unfold_noquery_errors s Hs); [|exact Hr].
  intros b Hb [H|(H & _)]; unfold dstar in H; rewrite (H0 b Hb) in H; lia.
Qed.

(* the guard in terms of the search string *)
Corollary unfold_plain_spec' s l : search_ok s = true -> contains "**" s = false ->
  unfold_search Ld s false false = Ok l ->
  forall x, In x l <->
    exists b tp d, In b (bodies Ld s) /\ In tp tpls /\ accepts tp b = Some d /\
                   narrowed Ld (mkSid b (tp_name tp) d) x.
Proof. intros Hs H0. apply unfold_plain_spec; [exact Hs|]. intros b. apply (bodies_no_dstar Ld Hconf s b H0). Qed.

Corollary unfold_plain_total' s : search_ok s = true -> contains "**" s = false ->
  narrowing_readable Ld = true -> exists l, unfold_search Ld s false false = Ok l.
Proof. intros Hs H0. apply unfold_plain_total; [exact Hs|]. intros b. apply (bodies_no_dstar Ld Hconf s b H0). Qed.

(** ** Stage 2: bodies with "/**" *)

Definition unfold_dstar_spec := unfold_noquery_spec.
Definition unfold_dstar_errors := unfold_noquery_errors.

(** ** Stage 3: a trailing url-safe query *)

Lemma query_okb_parts qd : query_okb qd = true ->
  qd <> [] /\ NoDup (map fst qd) /\ forall kv, In kv qd -> atom (fst kv) /\ vok (snd kv).
Proof.
  unfold query_okb. intros H. apply andb_true_iff in H. destruct H as (H & H3).
  apply andb_true_iff in H. destruct H as (H1 & H2).
  split; [destruct qd; [discriminate | discriminate]|]. split; [apply nodupb_NoDup; exact H2|].
  intros kv Hkv. rewrite forallb_forall in H3. specialize (H3 kv Hkv). apply andb_true_iff in H3.
  destruct H3 as (Hk & Hv). split; [exact Hk | apply value_okb_vok; exact Hv].
Qed.

Lemma queries_uok qd u : query_okb qd = true -> In u (queries Ld qd) -> uok u.
Proof.
  intros Hok Hu. destruct (query_okb_parts qd Hok) as (Hne & Hnd & Hkv).
  apply (queries_choices Ld Hconf qd u (fun kv H => proj2 (Hkv kv H))) in Hu.
  destruct Hu as (ch & Hch & ->).
  assert (Hkv' : forall kv, In kv (ext_dict Ld qd) -> atom (fst kv) /\ vok (snd kv)).
  { intros kv' Hin. unfold ext_dict in Hin. apply in_map_iff in Hin. destruct Hin as (kv & <- & Hin).
    cbn [fst snd]. destruct (Hkv kv Hin) as (Hk & Hv). split; [exact Hk | apply (ext_val_vok Ld Hconf); exact Hv]. }
  apply adict_uok.
  - unfold ext_dict. destruct qd; [congruence | discriminate].
  - rewrite ext_dict_keys. exact Hnd.
  - symmetry. apply (Forall2_length_s _ _ _ Hch).
  - apply qchoice_adict; assumption.
Qed.

Lemma front_query body qd : search_ok body = true -> query_okb qd = true ->
  exists s1 s2, extensions Ld (body ++ "?" ++ query_str qd) = Ok s1 /\ or_op s1 = Ok s2 /\
    forall r, In r s2 <-> exists b u, In b (bodies Ld body) /\ In u (queries Ld qd) /\ r = qs b u.
Proof.
  intros Hs Hok. destruct (query_okb_parts qd Hok) as (Hne & Hnd & Hkv).
  assert (Hq : mem_c "?" body = false).
  { unfold search_ok, plain_str in Hs. repeat (apply andb_true_iff in Hs; destruct Hs as (Hs & ?)).
    apply negb_true_iff in Hs. exact Hs. }
  assert (Hkv' : forall kv, In kv (ext_dict Ld qd) -> atom (fst kv) /\ vok (snd kv)).
  { intros kv' Hin. unfold ext_dict in Hin. apply in_map_iff in Hin. destruct Hin as (kv & <- & Hin).
    cbn [fst snd]. destruct (Hkv kv Hin) as (Hk & Hv). split; [exact Hk | apply (ext_val_vok Ld Hconf); exact Hv]. }
  destruct (or_op_query (extended Ld body) (ext_dict Ld qd)) as (s2 & E2 & Hs2).
  - apply extended_noquery; [exact Hq|]. intros x Hx. apply (member_ok_parts x (is_member_ok Ld Hconf x Hx)).
  - apply extended_no_marker; assumption.
  - unfold ext_dict. destruct qd; [congruence | discriminate].
  - rewrite ext_dict_keys. exact Hnd.
  - exact Hkv'.
  - eexists _, s2. split; [apply (extensions_query Ld Hconf body qd Hq Hne Hnd Hkv)|]. split; [exact E2|].
    intros r. rewrite Hs2. split.
    + intros (choice & ch & Hc & Hch & ->). exists (join "/" choice), (join "&" (map enc (combine (map fst (ext_dict Ld qd)) ch))).
      assert (Hu : In (join "&" (map enc (combine (map fst (ext_dict Ld qd)) ch))) (queries Ld qd)).
      { apply (queries_choices Ld Hconf qd _ (fun kv H => proj2 (Hkv kv H))). exists ch. auto. }
      split; [apply (choices_bodies Ld Hconf); exists choice; auto|]. split; [exact Hu|].
      destruct (queries_uok qd _ Hok Hu) as (Hune & _). unfold qs. apply sempty_false in Hune. rewrite Hune. reflexivity.
    + intros (b & u & Hb & Hu & ->). apply (choices_bodies Ld Hconf) in Hb. destruct Hb as (choice & Hc & ->).
      destruct (queries_uok qd _ Hok Hu) as (Hune & _).
      apply (queries_choices Ld Hconf qd u (fun kv H => proj2 (Hkv kv H))) in Hu. destruct Hu as (ch & Hch & ->).
      exists choice, ch. split; [exact Hc|]. split; [exact Hch|]. unfold qs. apply sempty_false in Hune. rewrite Hune. reflexivity.
Qed.

Lemma U_query qd u : query_okb qd = true -> In u (queries Ld qd) -> readable u /\ mem_c "/" u = false.
Proof. intros Hok Hu. destruct (queries_uok qd u Hok Hu) as (_ & Hr & Hsl & _). split; [right; exact Hr | exact Hsl]. Qed.

(* guards: the body is a plain search (no "?" ":" newline, no "--start--"); the query is
   k1=v1&...&kn=vn with distinct url-safe keys, every value a "," list of url-safe tokens;
   no body is the empty string (a search made of a query only is built from the query) *)
Theorem unfold_query_spec body qd l : search_ok body = true -> query_okb qd = true ->
  ~ In "" (bodies Ld body) ->
  unfold_search Ld (body ++ "?" ++ query_str qd) false false = Ok l ->
  forall x, In x l <->
    exists b u y x1, In b (bodies Ld body) /\ In u (queries Ld qd) /\ typed_of Ld b y /\
                     query_applied Ld u y x1 /\ narrowed Ld x1 x.
Proof.
  intros Hs Hok Hnb H. destruct (front_query body qd Hs Hok) as (s1 & s2 & E1 & E2 & Hs2).
  unfold unfold_search, apply_unfolders in H. rewrite E1 in H. cbn [bind] in H. rewrite E2 in H. cbn [bind] in H.
  destruct (concat_mapM (expand Ld) s2) as [s3|] eqn:E3; [|discriminate]. cbn [bind] in H.
  destruct (mapM (type_narrow Ld) s3) as [s4|] eqn:E4; [|discriminate]. cbn [bind] in H.
  inversion H; subst l. clear H. intros x.
  rewrite (back_end_spec s2 (bodies Ld body) (queries Ld qd) Hs2 (fun b => bodies_bok body b Hs)
             (fun u => U_query qd u Hok)
             (fun b u Hb _ _ E => Hnb (eq_ind b (fun z => In z (bodies Ld body)) Hb "" E)) s3 s4 E3 E4 x).
  split.
  - intros (b & u & y & x1 & Hb & Hu & Hy & Ha & Hn). exists b, u, y, x1.
    destruct (queries_uok qd u Hok Hu) as (Hune & _). unfold qapplied in Ha. apply sempty_false in Hune. rewrite Hune in Ha.
    auto 6.
  - intros (b & u & y & x1 & Hb & Hu & Hy & Ha & Hn). exists b, u, y, x1.
    destruct (queries_uok qd u Hok Hu) as (Hune & _). unfold qapplied. apply sempty_false in Hune. rewrite Hune.
    auto 6.
Qed.

Theorem unfold_query_errors body qd : search_ok body = true -> query_okb qd = true ->
  ~ In "" (bodies Ld body) ->
  ((exists b, In b (bodies Ld body) /\ body_error Ld b) ->
   unfold_search Ld (body ++ "?" ++ query_str qd) false false = Raise SpilException) /\
  ((forall b, In b (bodies Ld body) -> ~ body_error Ld b) -> narrowing_readable Ld = true ->
   exists l, unfold_search Ld (body ++ "?" ++ query_str qd) false false = Ok l).
Proof.
  intros Hs Hok Hnb. destruct (front_query body qd Hs Hok) as (s1 & s2 & E1 & E2 & Hs2).
  unfold unfold_search, apply_unfolders. rewrite E1. cbn [bind]. rewrite E2. cbn [bind]. split.
  - intros (b & Hb & Herr).
    assert (Hq : exists u, In u (queries Ld qd)).
    { destruct (query_okb_parts qd Hok) as (Hne & Hnd & Hkv).
      (* the choice made of the first alternative of every value *)
      assert (Hex : forall qd', (forall kv, In kv qd' -> vok (snd kv)) -> exists ch, qchoice qd' ch).
      { induction qd' as [|kv qd' IH]; intros Hv; [exists []; constructor|].
        destruct IH as (ch & Hch); [intros kv' H'; apply Hv; right; exact H'|].
        destruct (Hv kv (or_introl eq_refl)) as (toks & Hne' & Hall & Ev).
        destruct toks as [|t0 toks]; [congruence|]. exists (t0 :: ch). constructor; [|exact Hch].
        rewrite Ev, (qalts_toks (t0 :: toks)) by assumption. left. reflexivity. }
      destruct (Hex (ext_dict Ld qd)) as (ch & Hch).
      { intros kv' Hin. unfold ext_dict in Hin. apply in_map_iff in Hin. destruct Hin as (kv & <- & Hin).
        cbn [snd]. apply (ext_val_vok Ld Hconf). apply (Hkv kv Hin). }
      eexists. apply (queries_choices Ld Hconf qd _ (fun kv H => proj2 (Hkv kv H))). exists ch. split; [exact Hch | reflexivity]. }
    destruct Hq as (u & Hu).
    rewrite (back_end_raises s2 (bodies Ld body) (queries Ld qd) Hs2 (fun b => bodies_bok body b Hs)
               (fun u => U_query qd u Hok)
               (fun b u Hb _ _ E => Hnb (eq_ind b (fun z => In z (bodies Ld body)) Hb "" E))).
    + reflexivity.
    + exists b, u. auto.
  - intros Hne Hr.
    destruct (back_end_total s2 (bodies Ld body) (queries Ld qd) Hs2 (fun b => bodies_bok body b Hs)
               (fun u => U_query qd u Hok)
               (fun b u Hb _ _ E => Hnb (eq_ind b (fun z => In z (bodies Ld body)) Hb "" E)) Hne Hr) as (s3 & s4 & E3 & E4).
    rewrite E3. cbn [bind]. rewrite E4. cbn [bind]. eexists. reflexivity.
Qed.

(** ** The same theorems with narrowing and query application read declaratively (C04 table) *)

Lemma typed_of_nonl b y : bok b -> ~ body_error Ld b -> typed_of Ld b y -> mem_c "010" (s_string y) = false.
Proof.
  intros (Hq & Hc & Hnl) Hne. unfold typed_of. destruct (Nat.eqb (count dstar b) 0) eqn:E.
  - intros H. destruct (typed_plain_wt b y H) as (_ & ->). exact Hnl.
  - intros H. destruct (typed_dstar_wt b y H) as (_ & n & ->).
    apply kn_nomem; auto. apply Nat.eqb_neq in E. unfold body_error in Hne. unfold dstar in *.
    destruct (count "/**" b) as [|[|k]]; [congruence | reflexivity | exfalso; apply Hne; left; lia].
Qed.

Theorem unfold_noquery_decl s l : search_ok s = true -> narrowing_simple Ld = true ->
  unfold_search Ld s false false = Ok l ->
  forall x, In x l <-> exists b y, In b (bodies Ld s) /\ typed_of Ld b y /\ narrowed_decl Ld y x.
Proof.
  intros Hs Hsimple H x. rewrite (unfold_noquery_spec s l Hs H x).
  assert (Hne : forall b, In b (bodies Ld s) -> ~ body_error Ld b).
  { intros b Hb Herr. destruct (unfold_noquery_errors s Hs) as (Hr & _). rewrite Hr in H by (exists b; auto). discriminate. }
  split; intros (b & y & Hb & Hy & Hn); exists b, y; (split; [exact Hb|]); (split; [exact Hy|]);
    destruct (typed_of_wt b y (bodies_bok s b Hs Hb) (Hne b Hb) Hy) as (Hw & _);
    pose proof (typed_of_nonl b y (bodies_bok s b Hs Hb) (Hne b Hb) Hy) as Hnl;
    apply (narrowed_decl_iff c Ld Hload Hwf y x Hsimple Hw Hnl); exact Hn.
Qed.

Corollary unfold_plain_decl s l : search_ok s = true -> narrowing_simple Ld = true ->
  (forall b, In b (bodies Ld s) -> count "/**" b = 0) ->
  unfold_search Ld s false false = Ok l ->
  forall x, In x l <->
    exists b tp d, In b (bodies Ld s) /\ In tp tpls /\ accepts tp b = Some d /\
                   narrowed_decl Ld (mkSid b (tp_name tp) d) x.
Proof.
  intros Hs Hsimple H0 H x. rewrite (unfold_noquery_decl s l Hs Hsimple H x). split.
  - intros (b & y & Hb & Ht & Hn). unfold typed_of, dstar in Ht. rewrite (H0 b Hb) in Ht. cbn [Nat.eqb] in Ht.
    destruct Ht as (tp & d & Hin & Ha & ->). exists b, tp, d. auto.
  - intros (b & tp & d & Hb & Hin & Ha & Hn). exists b, (mkSid b (tp_name tp) d). split; [exact Hb|].
    split; [|exact Hn]. unfold typed_of, dstar. rewrite (H0 b Hb). cbn [Nat.eqb]. exists tp, d. auto.
Qed.

Lemma query_dicts_ok qd ud : query_okb qd = true -> In ud (query_dicts Ld qd) ->
  adict ud /\ NoDup (map fst ud) /\ ud <> [] /\ In (query_str ud) (queries Ld qd).
Proof.
  intros Hok Hud. destruct (query_okb_parts qd Hok) as (Hne & Hnd & Hkv).
  assert (Hu : In (query_str ud) (queries Ld qd)) by (unfold queries; apply in_map; exact Hud).
  unfold query_dicts in Hud. apply in_map_iff in Hud. destruct Hud as (ch & <- & Hch).
  apply product_In in Hch. apply Forall2_map_l in Hch.
  assert (Hch' : qchoice (ext_dict Ld qd) ch).
  { unfold qchoice, ext_dict. apply Forall2_map_l. eapply (Forall2_iff_in _ _ qd ch); [|exact Hch].
    intros kv Hin x. cbn [fst snd]. apply (qalts_value_alts Ld Hconf). apply (Hkv kv Hin). }
  assert (Hkv' : forall kv, In kv (ext_dict Ld qd) -> atom (fst kv) /\ vok (snd kv)).
  { intros kv' Hin. unfold ext_dict in Hin. apply in_map_iff in Hin. destruct Hin as (kv & <- & Hin).
    cbn [fst snd]. destruct (Hkv kv Hin) as (Hk & Hv). split; [exact Hk | apply (ext_val_vok Ld Hconf); exact Hv]. }
  pose proof (qchoice_adict _ ch Hkv' Hch') as Ha. rewrite ext_dict_keys in Ha.
  assert (Hlen : List.length (map fst qd) = List.length ch).
  { rewrite map_length. rewrite <- (Forall2_length_s _ _ _ Hch). reflexivity. }
  split; [exact Ha|]. split; [rewrite (map_fst_combine _ _ Hlen); exact Hnd|]. split; [|exact Hu].
  intros E. apply (f_equal (map fst)) in E. rewrite (map_fst_combine _ _ Hlen) in E. cbn in E.
  apply map_eq_nil in E. congruence.
Qed.

Theorem unfold_query_decl body qd l : search_ok body = true -> query_okb qd = true ->
  ~ In "" (bodies Ld body) -> narrowing_simple Ld = true ->
  unfold_search Ld (body ++ "?" ++ query_str qd) false false = Ok l ->
  forall x, In x l <->
    exists b ud y x1, In b (bodies Ld body) /\ In ud (query_dicts Ld qd) /\ typed_of Ld b y /\
                      table_applied Ld ud y x1 /\ narrowed_decl Ld x1 x.
Proof.
  intros Hs Hok Hnb Hsimple H x. rewrite (unfold_query_spec body qd l Hs Hok Hnb H x).
  assert (Hne : forall b, In b (bodies Ld body) -> ~ body_error Ld b).
  { intros b Hb Herr. destruct (unfold_query_errors body qd Hs Hok Hnb) as (Hr & _).
    rewrite Hr in H by (exists b; auto). discriminate. }
  split.
  - intros (b & u & y & x1 & Hb & Hu & Hy & Ha & Hn). unfold queries in Hu. apply in_map_iff in Hu.
    destruct Hu as (ud & <- & Hud). destruct (query_dicts_ok qd ud Hok Hud) as (Had & Hnd & Hune & _).
    destruct (typed_of_wt b y (bodies_bok body b Hs Hb) (Hne b Hb) Hy) as (Hw & _).
    pose proof (typed_of_nonl b y (bodies_bok body b Hs Hb) (Hne b Hb) Hy) as Hnl.
    apply (query_applied_table c Ld Hload Hwf ud y x1 Hw Hnl Had Hnd Hune) in Ha.
    destruct (table_applied_wt c Ld Hload Hwf ud y x1 Hw Hnl Had Ha) as (Hw1 & Hnl1).
    exists b, ud, y, x1. repeat (split; [assumption|]).
    apply (narrowed_decl_iff c Ld Hload Hwf x1 x Hsimple Hw1 Hnl1). exact Hn.
  - intros (b & ud & y & x1 & Hb & Hud & Hy & Ha & Hn).
    destruct (query_dicts_ok qd ud Hok Hud) as (Had & Hnd & Hune & Hu).
    destruct (typed_of_wt b y (bodies_bok body b Hs Hb) (Hne b Hb) Hy) as (Hw & _).
    pose proof (typed_of_nonl b y (bodies_bok body b Hs Hb) (Hne b Hb) Hy) as Hnl.
    destruct (table_applied_wt c Ld Hload Hwf ud y x1 Hw Hnl Had Ha) as (Hw1 & Hnl1).
    exists b, (query_str ud), y, x1. split; [exact Hb|]. split; [exact Hu|]. split; [exact Hy|]. split.
    + apply (query_applied_table c Ld Hload Hwf ud y x1 Hw Hnl Had Hnd Hune). exact Ha.
    + apply (narrowed_decl_iff c Ld Hload Hwf x1 x Hsimple Hw1 Hnl1). exact Hn.
Qed.

(** ** The per-body statements of the brief, query-free form *)

(* [simple_typing] on a plain body: the typed members are exactly the typed searches [mkSid b t d]
   of the templates that accept b; the only other possible member is the untyped Sid of b *)
Theorem simple_typing_spec b : bok b ->
  exists r, simple_typing Ld b = Ok r /\
    (forall y, typed_plain Ld b y -> In y r) /\
    (forall y, In y r -> typed_plain Ld b y \/ (y = mkSid b "" [] /\ forall y', ~ typed_plain Ld b y')).
Proof.
  intros Hb. pose proof Hb as (Hq & Hc & Hnl).
  pose proof (simple_typing_gen c Ld Hload Hwf b b "" (fun y => y) (mkSid b "" []) Hq Hc Hnl (split_query_nomem b Hq)) as H.
  rewrite H.
  2:{ intros tp d Hin Ha. apply (Sid_typed c Ld Hload Hwf b tp d Hin Ha Hq). }
  2:{ intros E. rewrite (Sid_plain c Ld Hload Hwf b Hq Hc), (typed_list_nil_natural Ld b E). reflexivity. }
  assert (Hwt : Forall (wt Ld) (typed_list Ld b)).
  { apply Forall_forall. intros y Hy. apply typed_list_In in Hy. apply (typed_plain_wt b y Hy). }
  destruct (typed_list Ld b) as [|y0 l0] eqn:E.
  - eexists. split; [reflexivity|]. split.
    + intros y Hy. apply typed_list_In in Hy. rewrite E in Hy. destruct Hy.
    + intros y [<-|[]]. right. split; [reflexivity|]. intros y' Hy'. apply typed_list_In in Hy'. rewrite E in Hy'. destruct Hy'.
  - rewrite <- E in *. rewrite map_id. eexists. split; [reflexivity|]. split.
    + intros y Hy. apply (nodup_sid_wt _ Hwt). apply typed_list_In. exact Hy.
    + intros y Hy. left. apply typed_list_In. apply (nodup_sid_incl _ _ Hy).
Qed.

(* [expand] on a query-free body: SpilException iff the body is an error (more than one "/**", or
   one "/**" whose root has no type / no leaf key); otherwise the typed members are exactly [typed_of] *)
Theorem expand_spec b : bok b ->
  (body_error Ld b -> expand Ld b = Raise SpilException) /\
  (~ body_error Ld b -> exists r, expand Ld b = Ok r /\
     (forall y, typed_of Ld b y -> In y r) /\
     (forall y, In y r -> typed_of Ld b y \/ clean y = false)).
Proof.
  intros Hb. destruct (expand_spec_q b "" Hb eq_refl (or_introl eq_refl) (fun H => False_ind _ (H eq_refl))) as (H1 & H2).
  unfold qs in H1, H2. cbn [sempty] in H1, H2. rewrite app_nil_r_s in H1, H2. split; [exact H1|].
  intros Hne. destruct (H2 Hne) as (r & Er & _ & Hin & Hout). exists r. split; [exact Er|]. split.
  - intros y Hy. apply (Hin y Hy). unfold qF. cbn [sempty].
    destruct (typed_of_wt b y Hb Hne Hy) as (Hw & Hq). apply wt_clean; assumption.
  - intros y Hy. destruct (Hout y Hy) as [H|(y' & Hy' & ->)]; [right; exact H | left; exact Hy'].
Qed.

(* a search with at least two segments has no empty body *)
Lemma alts_of_parts_length : forall parts, List.length (alts_of_parts Ld parts) = List.length parts.
Proof.
  induction parts as [|g parts IH]; [reflexivity|]. destruct parts as [|g2 parts]; [reflexivity|].
  change (alts_of_parts Ld (g :: g2 :: parts)) with (comma_alts g :: alts_of_parts Ld (g2 :: parts)).
  cbn [List.length]. rewrite IH. reflexivity.
Qed.

Lemma bodies_nonempty body : mem_c "/" body = true -> ~ In "" (bodies Ld body).
Proof.
  intros Hs Hin. unfold bodies, alts_of_segments in Hin. apply in_map_iff in Hin. destruct Hin as (ch & E & Hch).
  apply product_In in Hch. apply Forall2_length_s in Hch. rewrite alts_of_parts_length, count_split in Hch.
  assert (Hc : 1 <= count_c "/" body).
  { destruct (count_c "/" body) eqn:E0; [|lia]. apply count_c_0 in E0. congruence. }
  destruct ch as [|x [|y ch]]; try (simpl in Hch; lia).
  rewrite join_cons2 in E. destruct x; discriminate.
Qed.

End Denote.
