(** C05, root independence: the three independent facts behind Path/RootProofs.v.
    1. literal text made of plain characters compiles to one [Chr] per character, and the matcher consumes
       such a prefix deterministically (so the reverse check of resolva does not depend on the root);
    2. pathlib's normalisation of [root ++ g] is [root ++ rel_of g] when [g] is empty or starts with "/";
    3. soundness of the boolean equalities of Path/RootDefs.v. *)
From Coq Require Import List String Ascii Bool Arith Lia.
From Spil Require Import Base.Str Base.Dict Base.Outcome Base.PyPath Base.StrProofs Base.SplitProofs
  Regex.Re Resolva.Template Resolva.Resolver Conf.ConfUtil Conf.Conf Conf.WF
  Regex.MatchProofs Sid.SidLemmas Path.PathProofs Path.RootDefs.
Import ListNotations.
Local Open Scope string_scope.

(** * Boolean equalities *)

Lemma strip_prefix_some : forall p s l, strip_prefix p s = Some l -> s = p ++ l.
Proof.
  induction p as [|a p IH]; intros s l H; cbn [strip_prefix] in H.
  - inversion H. reflexivity.
  - destruct s as [|b s]; [discriminate|]. destruct (Ascii.eqb a b) eqn:E; [|discriminate].
    apply Ascii.eqb_eq in E. subst b. cbn [append]. f_equal. apply IH. exact H.
Qed.

Lemma strip_prefix_app : forall p l, strip_prefix p (p ++ l) = Some l.
Proof.
  induction p as [|a p IH]; intros l; cbn [strip_prefix append]; [reflexivity|].
  rewrite Ascii.eqb_refl. apply IH.
Qed.

Lemma assoc_eqb_eq : forall a b, assoc_eqb a b = true -> a = b.
Proof.
  induction a as [|[k v] a IH]; intros [|[k' v'] b] H; cbn [assoc_eqb] in H; try discriminate; [reflexivity|].
  apply andb_true_iff in H. destruct H as (H & H3). apply andb_true_iff in H. destruct H as (H1 & H2).
  apply String.eqb_eq in H1. apply String.eqb_eq in H2. subst. f_equal. apply IH. exact H3.
Qed.

Lemma mapping_eqb_eq : forall a b, mapping_eqb a b = true -> a = b.
Proof.
  induction a as [|[k v] a IH]; intros [|[k' v'] b] H; cbn [mapping_eqb] in H; try discriminate; [reflexivity|].
  apply andb_true_iff in H. destruct H as (H & H3). apply andb_true_iff in H. destruct H as (H1 & H2).
  apply String.eqb_eq in H1. apply assoc_eqb_eq in H2. subst. f_equal. apply IH. exact H3.
Qed.

Lemma eqb_app_l : forall p a b, String.eqb (p ++ a) (p ++ b) = String.eqb a b.
Proof.
  induction p as [|x p IH]; intros a b; cbn [append]; [reflexivity|].
  cbn [String.eqb]. rewrite Ascii.eqb_refl. apply IH.
Qed.

(** * Plain literal text *)

Lemma parse_atom_plain a s : plain_char a = true -> parse_atom (String a s) = Some (Chr a, s).
Proof.
  intros H.
  destruct a as [[] [] [] [] [] [] [] []];
    try (exfalso; vm_compute in H; discriminate H); reflexivity.
Qed.

Lemma parse_lit_plain : forall r l, all_c plain_char r = true ->
  parse_lit (String.length (r ++ l)) (r ++ l) =
  match parse_lit (String.length l) l with
  | Some L => Some (map Chr (list_ascii_of_string r) ++ L)%list
  | None => None
  end.
Proof.
  induction r as [|a r IH]; intros l H.
  - cbn [append list_ascii_of_string map app]. destruct (parse_lit (String.length l) l); reflexivity.
  - cbn [all_c] in H. apply andb_true_iff in H. destruct H as (Ha & Hr).
    cbn [append String.length parse_lit]. rewrite (parse_atom_plain a (r ++ l) Ha), (IH l Hr).
    destruct (parse_lit (String.length l) l); reflexivity.
Qed.

(* the matcher on a prefix of [Chr]s reading exactly these characters *)
Lemma m_strip_chars : forall p R f k,
  m (seq_of (map Chr (list_ascii_of_string p) ++ R)) (p ++ f) k
  = m (seq_of R) f (fun w s c => k (p ++ w) s c).
Proof.
  induction p as [|a p IH]; intros R f k.
  - reflexivity.
  - cbn [list_ascii_of_string map app].
    destruct (map Chr (list_ascii_of_string p) ++ R)%list as [|y t] eqn:E.
    + destruct p as [|b p]; [|discriminate E]. cbn [list_ascii_of_string map app] in E. subst R.
      cbn. rewrite Ascii.eqb_refl. reflexivity.
    + change (seq_of (Chr a :: y :: t)) with (Seq (Chr a) (seq_of (y :: t))).
      rewrite <- E. cbn [append m]. rewrite Ascii.eqb_refl. rewrite IH. reflexivity.
Qed.

Lemma search_strip_chars p R f :
  search_anchored (seq_of (map Chr (list_ascii_of_string p) ++ R)) (p ++ f) = search_anchored (seq_of R) f.
Proof. unfold search_anchored. rewrite m_strip_chars. reflexivity. Qed.

(** * Normalisation under a root *)

(* [g] is what a template writes after the root *)
Definition gshape (g : string) : Prop := g = "" \/ exists g', g = String "/" g'.

(* what pathlib leaves of it *)
Definition rel_of (g : string) : string :=
  match g with
  | "" => ""
  | String _ g' => match filter keep_partb (split_c "/" g') with
                   | [] => ""
                   | Q => "/" ++ join "/" Q
                   end
  end.

Lemma join_app sep : forall P Q, P <> [] ->
  join sep (P ++ Q) = join sep P ++ match Q with [] => "" | _ => sep ++ join sep Q end.
Proof.
  induction P as [|x P IH]; intros Q Hne; [congruence|].
  destruct P as [|y P].
  - cbn [app]. destruct Q as [|q Q]; [cbn [join]; rewrite app_nil_r_s; reflexivity|].
    rewrite join_cons2. reflexivity.
  - change ((x :: y :: P) ++ Q)%list with (x :: y :: (P ++ Q))%list. rewrite !join_cons2.
    change (y :: (P ++ Q))%list with ((y :: P) ++ Q)%list. rewrite IH by discriminate.
    rewrite !app_assoc_s. reflexivity.
Qed.

Lemma root_ok_inv r : root_okb r = true ->
  exists r', r = String "/" r' /\ Forall part_ok (split_c "/" r') /\ all_c plain_char r' = true
             /\ exists b r'', r' = String b r'' /\ b <> "/"%char.
Proof.
  unfold root_okb. destruct r as [|a r']; [discriminate|].
  destruct (Ascii.eqb a "/") eqn:Ea.
  2:{ destruct a as [[] [] [] [] [] [] [] []]; try discriminate; discriminate Ea. }
  apply Ascii.eqb_eq in Ea. subst a. intros H. apply andb_true_iff in H. destruct H as (Hk & Hp).
  exists r'. split; [reflexivity|].
  assert (HP : Forall part_ok (split_c "/" r')).
  { pose proof (split_c_nomem_all "/" r') as Hall. rewrite forallb_forall in Hk.
    rewrite Forall_forall in *. intros x Hx. apply keep_part_ok; [apply Hall; exact Hx|].
    apply (Hk x Hx). }
  split; [exact HP|]. split; [exact Hp|].
  pose proof (join_parts_head _ HP) as Hh.
  change "/" with (str1 "/") in Hh at 1. rewrite join_split_c in Hh.
  destruct r' as [|b r'']; [|exists b, r''; split; [reflexivity | exact Hh]].
  exfalso. cbn in Hk. discriminate Hk.
Qed.

Lemma norm_root r g : root_okb r = true -> gshape g -> norm_path (r ++ g) = r ++ rel_of g.
Proof.
  intros Hr Hg. destruct (root_ok_inv r Hr) as (r' & -> & HP & _ & b & r'' & Er & Hb).
  assert (Hj : join "/" (split_c "/" r') = r').
  { change "/" with (str1 "/") at 1. apply join_split_c. }
  assert (Hne : split_c "/" r' <> []) by apply split_c_not_nil.
  assert (Hh : noslash_head (r' ++ g)) by (rewrite Er; exact Hb).
  unfold norm_path, path_parts. cbn [append sempty]. rewrite (splitroot_1 _ Hh).
  fold keep_part. destruct Hg as [-> | (g' & ->)].
  - rewrite app_nil_r_s. rewrite (filter_keep_all _ HP). unfold format_parts. rewrite Hj.
    cbn [append sempty rel_of]. rewrite app_nil_r_s. reflexivity.
  - rewrite split_c_app_gen, filter_app, (filter_keep_all _ HP).
    unfold format_parts. cbn [append sempty rel_of]. f_equal.
    rewrite (join_app "/" _ _ Hne), Hj. change keep_partb with keep_part.
    destruct (filter keep_part (split_c "/" g')); [rewrite app_nil_r_s|]; reflexivity.
Qed.
