(** C19 placement: the result of extrapolate_templates is the explicit entries, each directly
    followed by the block of types generated from it, from longest to shortest template. *)
From Coq Require Import List String Ascii Bool Arith Lia Sorted.
From Spil Require Import Base.Str Base.Dict Base.StrProofs Base.SplitProofs Conf.ConfUtil Conf.ConfUtilProofs.
Import ListNotations.
Local Open Scope string_scope.
Local Open Scope list_scope.

(** number of "/"-segments of a template *)
Definition seglen (t : string) : nat := List.length (split_c "/" t).

Lemma split_c_nomem_all c s : Forall (fun p => mem_c c p = false) (split_c c s).
Proof.
  induction s as [|a s IH]; simpl.
  - constructor; [reflexivity|constructor].
  - destruct (Ascii.eqb a c) eqn:E.
    + constructor; [reflexivity|exact IH].
    + destruct (split_c c s) as [|h t].
      * constructor; [simpl; rewrite E; reflexivity|constructor].
      * inversion IH; subst. constructor; [simpl; rewrite E; assumption | assumption].
Qed.

Lemma split_c_join c l :
  l <> [] -> Forall (fun p => mem_c c p = false) l -> split_c c (join (str1 c) l) = l.
Proof.
  induction l as [|x l IH]; intros Hne Hall; [congruence|].
  inversion Hall as [|? ? Hx Hl]; subst. destruct l as [|y l].
  - simpl. apply split_c_nomem. exact Hx.
  - rewrite join_cons2. unfold str1 at 1. cbn [String.append].
    rewrite split_c_app by exact Hx. f_equal. apply IH; [discriminate | exact Hl].
Qed.

Lemma seglen_join l :
  l <> [] -> Forall (fun p => mem_c "/" p = false) l -> seglen (join "/" l) = List.length l.
Proof.
  intros Hne Hall. unfold seglen. change "/"%string with (str1 "/").
  rewrite split_c_join by assumption. reflexivity.
Qed.

Lemma Forall_removelast {A} (P : A -> Prop) l : Forall P l -> Forall P (removelast l).
Proof.
  induction 1 as [|x l Hx Hl IH]; simpl; [constructor|].
  destruct l; [constructor|]. constructor; assumption.
Qed.

Lemma length_removelast {A} (l : list A) : List.length (removelast l) = pred (List.length l).
Proof.
  induction l as [|x l IH]; simpl; [reflexivity|].
  destruct l; [reflexivity|]. simpl in *. rewrite IH. reflexivity.
Qed.

Lemma rparts_slashfree tpl : Forall (fun p => mem_c "/" p = false) (rparts tpl).
Proof.
  unfold rparts. apply Forall_rev. apply Forall_removelast. apply split_c_nomem_all.
Qed.

Lemma rparts_length tpl : List.length (rparts tpl) < seglen tpl.
Proof.
  unfold rparts, seglen. rewrite rev_length, length_removelast.
  pose proof (split_c_not_nil "/" tpl) as H. destruct (split_c "/" tpl); [congruence | simpl; lia].
Qed.

Lemma seglen_pf part rest :
  Forall (fun p => mem_c "/" p = false) (part :: rest) -> seglen (pf part rest) = S (List.length rest).
Proof.
  intros H. unfold pf. rewrite seglen_join.
  - rewrite rev_length. reflexivity.
  - simpl. intros E. apply app_eq_nil in E. destruct E; discriminate.
  - apply Forall_rev. exact H.
Qed.

(** the appended entries have strictly decreasing numbers of segments, bounded by the walked parts *)
Definition shorter (a b : string * string) : Prop := seglen (snd b) < seglen (snd a).

Lemma walk_adds_levels stem orig rp acc added :
  walk_adds stem orig rp acc added ->
  Forall (fun p => mem_c "/" p = false) rp ->
  StronglySorted shorter added /\
  Forall (fun kv => seglen (snd kv) <= List.length rp) added.
Proof.
  induction 1 as [acc | part rest acc added Hs Hw IH | part rest acc added Hn1 Hn2 Hw IH]; intros Hsf.
  - split; constructor.
  - inversion Hsf as [|? ? Hp Hr]; subst. destruct (IH Hr) as (Hso & Hb). split; [exact Hso|].
    eapply Forall_impl; [|exact Hb]. simpl. intros kv Hkv. lia.
  - inversion Hsf as [|? ? Hp Hr]; subst. destruct (IH Hr) as (Hso & Hb).
    pose proof (seglen_pf part rest Hsf) as Hlen. split.
    + constructor; [exact Hso|]. eapply Forall_impl; [|exact Hb].
      intros kv Hkv. cbv beta in Hkv. unfold shorter. cbn [snd]. rewrite Hlen. lia.
    + constructor; [cbn [snd List.length]; rewrite Hlen; lia|].
      eapply Forall_impl; [|exact Hb]. simpl. intros kv Hkv. lia.
Qed.

Lemma StronglySorted_nth {A} (R : A -> A -> Prop) d l :
  StronglySorted R l -> forall i j, i < j < List.length l -> R (nth i l d) (nth j l d).
Proof.
  induction 1 as [|a l Hs IH Hall]; intros i j Hij; simpl in *; [lia|].
  destruct j; [lia|]. destruct i.
  - rewrite Forall_forall in Hall. apply Hall. apply nth_In. lia.
  - apply IH. lia.
Qed.

(** the block generated from one explicit type with template [tpl] *)
Definition strictly_shorter (tpl : string) (g : templates) : Prop :=
  (forall i j, i < j < List.length g ->
     seglen (snd (nth j g ("",""))) < seglen (snd (nth i g ("","")))) /\
  Forall (fun kv => seglen (snd kv) < seglen tpl) g.

Definition blockQ (sep : string) (te : list string) (kv : string * string) (g : templates) : Prop :=
  (in_list (fst kv) te = false -> g = []) /\
  Forall (generated_from sep (fst kv) (snd kv)) g /\
  strictly_shorter (snd kv) g.

Definition flat (orig : templates) (groups : list templates) : templates :=
  List.concat (map (fun kg : (string * string) * templates => fst kg :: snd kg) (combine orig groups)).

Lemma combine_snoc {A B} (l : list A) (l' : list B) x y :
  List.length l = List.length l' -> combine (l ++ [x]) (l' ++ [y]) = combine l l' ++ [(x, y)].
Proof.
  revert l'. induction l as [|a l IH]; intros [|b l'] E; simpl in *; try discriminate; [reflexivity|].
  f_equal. apply IH. lia.
Qed.

Lemma flat_snoc done groups x g :
  List.length done = List.length groups ->
  flat (done ++ [x]) (groups ++ [g]) = flat done groups ++ x :: g.
Proof.
  intros E. unfold flat. rewrite combine_snoc by exact E.
  rewrite map_app, concat_app. simpl. rewrite app_nil_r. reflexivity.
Qed.

Lemma Forall2_len {A B} (R : A -> B -> Prop) l l' : Forall2 R l l' -> List.length l = List.length l'.
Proof. induction 1; simpl; congruence. Qed.

Definition Inv3 (sep : string) (te : list string) (orig done acc : templates) : Prop :=
  Inv orig done acc /\
  exists groups, Forall2 (blockQ sep te) done groups /\ acc = flat done groups.

Lemma inv3_step sep orig te done x todo acc :
  NoDup (names orig) -> NoDup (tpls orig) ->
  orig = done ++ x :: todo ->
  Inv3 sep te orig done acc -> Inv3 sep te orig (done ++ [x]) (step sep orig te acc x).
Proof.
  intros Hno Hto E (HI & groups & HQ & Hacc).
  pose proof (inv_step sep orig te done x todo acc Hno Hto E HI) as HI'.
  split; [exact HI'|].
  destruct HI as (Hf & Hn & Ht & Hall).
  assert (Hx_in : In (fst x) (names orig)).
  { rewrite E. unfold names. rewrite map_app. apply in_or_app. right. left. reflexivity. }
  assert (Hx_notdone : ~ In (fst x) (names done)).
  { rewrite E in Hno. unfold names in *. rewrite map_app in Hno. simpl in Hno.
    intros Hin. apply NoDup_remove_2 in Hno. apply Hno. apply in_or_app. left. exact Hin. }
  assert (Hk : ~ In (fst x) (names acc)).
  { intros Hin. unfold names in Hin. apply in_map_iff in Hin. destruct Hin as (kv & Ek & Hin).
    rewrite Forall_forall in Hall. destruct (Hall kv Hin) as [Hd|[Hfr _]].
    - apply Hx_notdone. rewrite <- Ek. unfold names. apply in_map. exact Hd.
    - apply Hfr. rewrite Ek. exact Hx_in. }
  pose proof (Forall2_len _ _ _ HQ) as Hlen.
  unfold step. destruct x as [k v]. cbn [fst snd] in *. rewrite (dset_new acc k v Hk).
  destruct (in_list k te) eqn:Ete.
  - unfold extrapolate_one.
    destruct (walk_up_spec (take (String.length k - String.length (keytype_of sep k)) k) orig
                (rev (removelast (split_c "/" v))) (acc ++ [(k, v)])) as (added & Hw & Ha).
    rewrite Hw. exists (groups ++ [added]). split.
    + apply Forall2_app; [exact HQ|]. constructor; [|constructor].
      unfold blockQ. cbn [fst snd]. split; [congruence|]. split.
      * exact (walk_adds_form _ _ _ _ _ Ha).
      * destruct (walk_adds_levels _ _ _ _ _ Ha (rparts_slashfree v)) as (Hso & Hb).
        split.
        -- intros i j Hij. exact (StronglySorted_nth shorter ("","") added Hso i j Hij).
        -- eapply Forall_impl; [|exact Hb]. intros kv Hkv. cbv beta in Hkv.
           pose proof (rparts_length v) as Hl. unfold rparts in Hl. lia.
    + rewrite flat_snoc by exact Hlen. rewrite Hacc. rewrite <- app_assoc. reflexivity.
  - exists (groups ++ [[]]). split.
    + apply Forall2_app; [exact HQ|]. constructor; [|constructor].
      unfold blockQ. cbn [fst snd]. split; [reflexivity|]. split; [constructor|].
      split; [intros i j Hij; simpl in Hij; lia | constructor].
    + rewrite flat_snoc by exact Hlen. rewrite Hacc. reflexivity.
Qed.

Lemma extrapolate_inv3 sep orig te :
  NoDup (names orig) -> NoDup (tpls orig) ->
  Inv3 sep te orig orig (extrapolate_templates sep orig te).
Proof.
  intros Hn Ht. rewrite extrapolate_fold.
  apply (fold_left_inv (step sep orig te) (fun done acc => Inv3 sep te orig done acc)).
  - split; [repeat split; constructor|]. exists []. split; [constructor | reflexivity].
  - intros done x todo acc E HI. eapply inv3_step; eassumption.
Qed.

(** A1 *)
Theorem extrapolate_blocks sep orig te :
  NoDup (names orig) -> NoDup (tpls orig) ->
  exists groups : list templates,
    List.length groups = List.length orig /\
    extrapolate_templates sep orig te
      = List.concat (map (fun kg : (string * string) * templates => fst kg :: snd kg) (combine orig groups)) /\
    Forall2 (fun kv g =>
               (in_list (fst kv) te = false -> g = []) /\
               Forall (generated_from sep (fst kv) (snd kv)) g /\
               strictly_shorter (snd kv) g) orig groups.
Proof.
  intros Hn Ht. destruct (extrapolate_inv3 sep orig te Hn Ht) as (_ & groups & HQ & Hacc).
  exists groups. split; [symmetry; exact (Forall2_len _ _ _ HQ)|]. split; [exact Hacc | exact HQ].
Qed.


(** each generated template is a proper, non-empty "/"-prefix of the template of its type *)
Lemma firstn_len_app {A} (a b : list A) : firstn (List.length a) (a ++ b) = a.
Proof. induction a as [|x a IH]; simpl; [reflexivity | rewrite IH; reflexivity]. Qed.

Lemma generated_from_prefix sep t tpl kv :
  generated_from sep t tpl kv ->
  exists n, 1 <= n < seglen tpl /\
            snd kv = join "/" (firstn n (split_c "/" tpl)) /\ seglen (snd kv) = n.
Proof.
  intros (pre & part & rest & E & _ & Hv).
  exists (S (List.length rest)).
  pose proof (rparts_length tpl) as Hl. pose proof (rparts_slashfree tpl) as Hsf.
  rewrite E in Hl, Hsf. rewrite app_length in Hl. cbn [List.length] in Hl.
  apply Forall_app in Hsf. destruct Hsf as (_ & Hsf).
  split; [lia|]. split; [|rewrite Hv; apply seglen_pf; exact Hsf].
  rewrite Hv. unfold pf. f_equal.
  assert (Hrev : removelast (split_c "/" tpl) = rev rest ++ part :: rev pre).
  { unfold rparts in E. apply (f_equal (@rev string)) in E. rewrite rev_involutive in E.
    rewrite E, rev_app_distr. cbn [rev]. rewrite <- app_assoc. reflexivity. }
  set (l := split_c "/" tpl) in *.
  assert (El : l = removelast l ++ [last l ""%string]).
  { apply app_removelast_last. apply split_c_not_nil. }
  rewrite El, Hrev. cbn [rev].
  replace (S (List.length rest)) with (List.length (rev rest ++ [part]))
    by (rewrite app_length, rev_length; simpl; lia).
  replace ((rev rest ++ part :: rev pre) ++ [last l ""%string])
    with ((rev rest ++ [part]) ++ (rev pre ++ [last l ""%string]))
    by (rewrite <- !app_assoc; reflexivity).
  symmetry. apply firstn_len_app.
Qed.
