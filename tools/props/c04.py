"""C04 query / get_with are all-or-nothing."""
from harness.runner import PropBase, Case
from harness import gen
from props.c01 import seg_accepts

SIMPLE = set('abcdefghijklmnopqrstuvwxyzABCDEFGHIJKLMNOPQRSTUVWXYZ0123456789_-.*>,')

def types_of(vocab, d):
    """all types whose key set is that of d and whose every pattern accepts the whole value"""
    out = []
    for t in vocab.order:
        keys = vocab.types[t]
        if set(k for k, _ in keys) == set(d.keys()) and len(keys) == len(d):
            if all(seg_accepts(e, d[k]) for k, e in keys):
                out.append(t)
    return out

def parse_simple_query(q):
    """only for queries in the plain fragment k=v(&k=v)*: returns list of pairs or None"""
    pairs = []
    for it in q.split('&'):
        if it.count('=') != 1:
            return None
        k, v = it.split('=')
        if not k or not v or set(k) - SIMPLE or set(v.lstrip('~')) - SIMPLE or '~' in v[1:]:
            return None
        pairs.append((k, v))
    return pairs

class C04(PropBase):
    id = 'C04'
    rule = ('typed sids x query / keyword overlays of 1-3 pairs over existing, deeper, foreign, optional (~), invalid, search, odd and None values; deeper keys with a valid value followed by an encoded newline / blank; '
            'non-trivial = overlay on a typed sid; distinct by (sid, overlay, call form)')
    def cases(self, rng, ctx, tier):
        v = gen.vocab_from_ctx(ctx)
        n = 80 if tier == 'quick' else 2000
        out = []
        for t in v.order:
            for _ in range(n):
                fields = v.fields(t, rng, search_p=rng.choice([0, 0, 0.3]))
                s = '/'.join(val for _, val in fields)
                q = gen.gen_query(rng, v, fields)
                meta = {'sid': s, 'q': q}
                out.append(Case('obs', [['s', s]], 'base', meta))
                out.append(Case('sid', [['s', s + '?' + q]], 'string?query', meta))
                out.append(Case('get_with_q', [['s', s], q], 'get_with(query)', meta))
                # keyword overlay
                kw = []
                seen = set()
                for _ in range(rng.randint(1, 3)):
                    r = rng.random()
                    k = rng.choice([kk for kk, _ in fields]) if r < 0.5 else rng.choice(v.all_keys() + ['foo'])
                    if k in seen:
                        continue
                    seen.add(k)
                    r2 = rng.random()
                    exprs = [e for tt in v.order for kk, e in v.types[tt] if kk == k]
                    if r2 < 0.2:
                        val = []
                    elif r2 < 0.7 and exprs:
                        val = [v.value(rng.choice(exprs), rng, search_p=0.15)]
                    else:
                        val = [rng.choice(gen.OPEN_VALUES + gen.ODD_VALUES)]
                    kw.append([k, val])
                out.append(Case('get_with_kw', [['s', s], kw], 'get_with(kw)', {'sid': s, 'kw': kw}))
        # a deeper key whose value is valid up to a trailing (percent-encoded) newline: accepted by the lenient reverse check,
        # rejected by the canonical one - the query is then not applied at all
        for t in v.order:
            keys = [k for k, _ in v.types[t]]
            for t2 in v.order:
                k2 = v.types[t2]
                if len(k2) == len(keys) + 1 and [k for k, _ in k2[:-1]] == keys:
                    for _ in range(max(2, n // 20)):
                        fields = v.fields(t, rng)
                        s = '/'.join(val for _, val in fields)
                        val = v.value(k2[-1][1], rng)
                        if set(val) - SIMPLE or not val:
                            continue
                        q = k2[-1][0] + '=' + val + rng.choice(['%0A', '%0a', '%0A%0A', '%0D', '%20'])
                        meta = {'sid': s, 'q': q}
                        out.append(Case('obs', [['s', s]], 'base', meta))
                        out.append(Case('sid', [['s', s + '?' + q]], 'string?query', meta))
                        out.append(Case('get_with_q', [['s', s], q], 'get_with(query)', meta))
        # an extension alias as the value of the leaf key in a query: after searches holding the same query text were unfolded
        # in this process (the unfolder expands the alias in the parsed dictionary), the query still applies to a Sid as written
        leaf_keys = dict(ctx['rawd']['leaf_keys'])
        sep = ctx['rawd']['sep']
        pre = []
        for t in v.order:
            lk = leaf_keys.get(t.split(sep)[0])
            if not lk or v.types[t][-1][0] != lk:
                continue
            for al, members in sorted(v.alias.items()):
                segs = v.sid(t, rng).split('/')
                if segs[-1] not in members:
                    segs2 = segs[:-1] + [members[0]]
                else:
                    segs2 = segs
                from props.c01 import natural as _nat
                s = '/'.join(segs2)
                if not _nat(v, s) or _nat(v, s)[0] != t:
                    continue
                q = lk + '=' + al
                pre.append(Case('unfold', ['/'.join(segs2[:-1] + ['*']) + '?' + q, '0', '0'], 'pre-unfold', {}))
                meta = {'sid': s, 'q': q}
                out.append(Case('obs', [['s', s]], 'base', meta))
                out.append(Case('sid', [['s', s + '?' + q]], 'string?query', meta))
                out.append(Case('get_with_q', [['s', s], q], 'get_with(query)', meta))
        out = pre + out
        # untyped and empty receivers
        for _ in range(n):
            s = gen.junk_string(rng).replace('?', '')
            out.append(Case('get_with_kw', [['s', s], [['project', ['hamlet']]]], 'untyped', {'sid': s}))
            out.append(Case('sid', [['s', s + '?' + gen.gen_query(rng, v, [])]], 'untyped?query', {'sid': s}))
        return out
    def phase2(self, rng, ctx, cases, impl_out, tier):
        self.base = {}
        for c, o in zip(cases, impl_out):
            if c.op == 'obs' and 'sid' in c.meta and isinstance(o, list) and o and isinstance(o[0], list):
                self.base[c.meta['sid']] = o[0]
        return []
    def oracle(self, case, impl, ctx):
        v = gen.vocab_from_ctx(ctx)
        if case.op == 'obs' or case.stream == 'pre-unfold':
            return None
        if impl[0] != 'ok':
            return '%s raised: %r' % (case.op, impl)
        got = impl[1]
        base = getattr(self, 'base', {}).get(case.meta.get('sid'))
        if case.stream in ('string?query', 'get_with(query)'):
            if base is None or not base[1]:
                return None
            string, ty, fields = base
            q = case.meta['q']
            pairs = parse_simple_query(q)
            if pairs is None:
                # outside the plain fragment: still all-or-nothing
                if '?' in got[0]:
                    if got[1] != ty or got[2] != fields:
                        return 'query kept in the string but type/fields changed: %r' % (got,)
                return None
            ov = dict(fields)
            order = [k for k, _ in fields]
            for k, val in dict(pairs).items():
                if val.startswith('~'):
                    if k in ov:
                        ov[k] = val[1:]
                else:
                    ov[k] = val
            T = types_of(v, ov)
            full = string + '?' + q
            is_search = any(sym in full for sym in ctx['rawd']['search_symbols'])
            if not T:
                target = None
            elif len(T) == 1:
                target = T[0]
            elif ty in T:
                target = ty
            elif is_search:
                target = T[0]
            else:
                target = None
            if target is None:
                exp = [full, ty, fields]
            else:
                keys = [k for k, _ in v.types[target]]
                exp = ['/'.join(ov[k] for k in keys), target, [[k, ov[k]] for k in keys]]
            if got != exp:
                return 'applying %r to %r: expected %r got %r' % (q, string, exp, got)
            return None
        if case.stream == 'get_with(kw)':
            if base is None or not base[1]:
                return None
            string, ty, fields = base
            ov = dict(fields)
            for k, val in case.meta['kw']:
                if not val:
                    ov.pop(k, None)
            for k, val in case.meta['kw']:
                if val:
                    ov[k] = val[0]
            if got[1]:
                if dict(got[2]) != ov:
                    return 'get_with(%r) returned a typed Sid with fields %r, requested overlay %r' % (case.meta['kw'], got[2], ov)
            else:
                if got != ['', '', []]:
                    # untyped result: allowed by the property ("or an untyped Sid")
                    pass
            # completeness: when the overlay fits a type, the result must be that typed Sid
            T = types_of(v, ov)
            if T and not got[1]:
                return 'overlay %r fits %r but get_with returned untyped' % (ov, T)
            return None
        if case.stream == 'untyped':
            return None
        return None
    def nontrivial(self, case, impl):
        return None if case.op == 'obs' else [case.op, case.args]
    def histogram_key(self, case, impl):
        if case.op == 'obs':
            return 'base'
        try:
            r = impl[1]
            kind = 'unapplied' if '?' in r[0] else ('typed' if r[1] else 'untyped')
        except Exception:
            kind = 'raise'
        return case.stream + ':' + kind

PROP = C04()
