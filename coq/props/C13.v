(** C13 — answers never depend on what was asked before (caches are invisible).  Property theorems only.
    Cache/Memo.v models the three wrappers of spil/util/caching.py (exact popitem eviction, any capacity)
    and functools.lru_cache (over-approximated: may forget anything); Cache/Wiring.v models how a python call
    (positional / keyword spelling) becomes a cache key.  Cache/Desc.v makes a wrapper DATA: tools/extract_caching.py
    translates spil/util/caching.py (python ast, fail-closed) into one descriptor per decorator and lists every decorated
    function of the source, on every run (gen/CachingGen.v); the theorems below hold for every accepted descriptor, and the
    generated file proves that the descriptors read from today's source are accepted and that every cached function uses one
    of them.  The second tie to the code is the history correspondence of tools/props/c13.py (answers after histories
    vs the pure model and vs fresh processes, long-lived Finder instances). *)
From Coq Require Import List String Bool Arith.
From Spil Require Import Base.Str Base.Dict Cache.Memo Cache.Wiring Cache.Desc Cache.DescProofs.
From SpilGen Require CachingGen.
Import ListNotations.

Section Transparent.
Variables (K V S : Type) (keq : K -> K -> bool) (f : K -> V) (truthy : V -> bool).
Variable body : K -> S -> V * S.
Variable InvS : S -> Prop.
Hypothesis body_pure : forall k s, InvS s -> fst (body k s) = f k /\ InvS (snd (body k s)).
Hypothesis keq_sound : forall a b, keq a b = true -> f a = f b.

(* lru_cache / lru_kw_cache: any capacity, exact eviction; the answer is the pure one and the invariant is kept *)
Theorem C13_transparent : forall n st k, InvSt K V S f InvS st ->
  fst (cached_call K V S keq body n st k) = f k /\ InvSt K V S f InvS (snd (cached_call K V S keq body n st k)).
Proof. exact (cached_call_pure K V S keq f body InvS body_pure keq_sound). Qed.

(* hit_cache (stores truthy results only) *)
Theorem C13_transparent_hit : forall n st k, InvSt K V S f InvS st ->
  fst (hit_cached_call K V S keq truthy body n st k) = f k /\ InvSt K V S f InvS (snd (hit_cached_call K V S keq truthy body n st k)).
Proof. exact (hit_cached_call_pure K V S keq f truthy body InvS body_pure keq_sound). Qed.

(* functools.lru_cache under ANY eviction policy *)
Theorem C13_transparent_any_eviction : forall keep st k, InvSt K V S f InvS st ->
  fst (forgetful_call K V S keq body keep st k) = f k /\ InvSt K V S f InvS (snd (forgetful_call K V S keq body keep st k)).
Proof. exact (forgetful_call_pure K V S keq f body InvS body_pure keq_sound). Qed.

(* after any history (any length, more distinct calls than the capacity) a call answers as from the empty cache *)
Theorem C13_history_independent : forall n h k st0, InvSt K V S f InvS st0 -> Inv K V f [] ->
  forall s1, InvS s1 ->
  fst (cached_call K V S keq body n (snd (run K V S keq body n st0 h)) k) = fst (cached_call K V S keq body n ([], s1) k).
Proof. exact (history_independent K V S keq f body InvS body_pure keq_sound). Qed.
End Transparent.
Print Assumptions C13_transparent.
Print Assumptions C13_transparent_hit.
Print Assumptions C13_transparent_any_eviction.
Print Assumptions C13_history_independent.

(* positional or keyword: equal keys bind to the same arguments *)
Theorem C13_key_sound : forall params c1 c2,
  NoDup (map fst (c_kw c1)) -> NoDup (map fst (c_kw c2)) ->
  keyof c1 = keyof c2 -> bind params c1 = bind params c2.
Proof. exact key_sound. Qed.
Print Assumptions C13_key_sound.

(* the key of the pinned tree (keyword names only) was unsound: the repaired defect, as a theorem *)
Theorem C13_names_only_key_refuted : exists params c1 c2,
  keyof_names_only c1 = keyof_names_only c2 /\ bind params c1 <> bind params c2.
Proof. exact names_only_key_refuted. Qed.
Print Assumptions C13_names_only_key_refuted.

(* a Sid object used as an argument never hits the entry of a plain string *)
Theorem C13_sid_key_vs_str_key : forall u s y, s = u \/ (exists t, u = (t ++ ":" ++ s)%string) -> key_eqb (ASid u s) (AStr y) = false.
Proof. exact sid_key_vs_str_key. Qed.
Print Assumptions C13_sid_key_vs_str_key.

(* nested caches (sid_to_sid over sid_to_dict over the resolver's cache) compose *)
Theorem C13_nested : forall (K1 V1 K2 V2 : Type) keq1 keq2 (f2 : K2 -> V2) (g : K1 -> K2) (h : K1 -> V2 -> V1),
  (forall a b, keq2 a b = true -> f2 a = f2 b) -> forall n2,
  (forall a b, keq1 a b = true -> f1 K1 V1 K2 V2 f2 g h a = f1 K1 V1 K2 V2 f2 g h b) ->
  forall n1 st k,
  InvSt K1 V1 (table K2 V2 * unit) (f1 K1 V1 K2 V2 f2 g h) (InvSt K2 V2 unit f2 (fun _ => True)) st ->
  fst (cached_call K1 V1 _ keq1 (outer_body K1 V1 K2 V2 keq2 f2 g h n2) n1 st k) = f1 K1 V1 K2 V2 f2 g h k.
Proof. exact nested_pure. Qed.
Print Assumptions C13_nested.

(** ** The wrappers as read from the source (gen/CachingGen.v, regenerated on every run) *)

Section Source.
Variables (K V S : Type) (keq : K -> K -> bool) (f : K -> V) (truthy : V -> bool).
Variable body : K -> S -> V * S.
Variable InvS : S -> Prop.
Hypothesis body_pure : forall k s, InvS s -> fst (body k s) = f k /\ InvS (snd (body k s)).
Hypothesis keq_sound : forall a b, keq a b = true -> f a = f b.

(* every wrapper found in spil/util/caching.py, with the eviction and storing policy and the capacity it has in the source:
   after any history of calls every answer is the pure one (and as from the empty cache) *)
Theorem C13_source_wrappers_transparent : forall name d, In (name, d) CachingGen.caching_wrappers ->
  forall h st, InvSt K V S f InvS st ->
  fst (desc_run K V S keq truthy body (wd_evict d) (wd_store d) CachingGen.max_size st h) = map f h /\
  forall k s1, InvS s1 ->
    fst (desc_call K V S keq truthy body (wd_evict d) (wd_store d) CachingGen.max_size
           (snd (desc_run K V S keq truthy body (wd_evict d) (wd_store d) CachingGen.max_size st h)) k)
    = fst (desc_call K V S keq truthy body (wd_evict d) (wd_store d) CachingGen.max_size ([], s1) k).
Proof.
  intros name d _ h st Hst. split.
  - exact (proj1 (desc_run_pure K V S keq f truthy body InvS body_pure keq_sound (wd_evict d) (wd_store d) CachingGen.max_size h st Hst)).
  - intros k s1 Hs1.
    exact (desc_history_independent K V S keq f truthy body InvS body_pure keq_sound (wd_evict d) (wd_store d) CachingGen.max_size h k st s1 Hst Hs1).
Qed.
End Source.
Print Assumptions C13_source_wrappers_transparent.

(* ... at any capacity, any eviction / storing policy (reduced capacities of the histories) *)
Theorem C13_desc_transparent : forall (K V S : Type) keq (f : K -> V) truthy body (InvS : S -> Prop),
  (forall k s, InvS s -> fst (body k s) = f k /\ InvS (snd (body k s))) -> (forall a b, keq a b = true -> f a = f b) ->
  forall e st n ks s, InvSt K V S f InvS s ->
  fst (desc_run K V S keq truthy body e st n s ks) = map f ks /\ InvSt K V S f InvS (snd (desc_run K V S keq truthy body e st n s ks)).
Proof. intros K V S keq f truthy body InvS Hb Hk e st n ks s. exact (desc_run_pure K V S keq f truthy body InvS Hb Hk e st n ks s). Qed.
Print Assumptions C13_desc_transparent.

(* the key each wrapper of the source computes determines the call it forwards (positional / keyword spellings bind alike) *)
Theorem C13_source_keys_sound : forall name d, In (name, d) CachingGen.caching_wrappers ->
  forall params c1 c2, admissible d c1 -> admissible d c2 ->
  NoDup (map fst (c_kw c1)) -> NoDup (map fst (c_kw c2)) ->
  key_under (wd_key d) c1 = key_under (wd_key d) c2 -> bind params c1 = bind params c2.
Proof.
  intros name d Hin params c1 c2. apply desc_key_sound.
  pose proof CachingGen.wrappers_accepted as H. rewrite forallb_forall in H. exact (H (name, d) Hin).
Qed.
Print Assumptions C13_source_keys_sound.

(* the rejected shapes really are unsound: keyword names only (the pinned tree), positional arguments only *)
Theorem C13_rejected_shapes_unsound :
  (exists params c1 c2, key_under KNamesOnly c1 = key_under KNamesOnly c2 /\ bind params c1 <> bind params c2) /\
  (exists params c1 c2, key_under KArgs c1 = key_under KArgs c2 /\ bind params c1 <> bind params c2).
Proof. split; [exact desc_names_only_refuted | exact desc_args_only_refuted]. Qed.
Print Assumptions C13_rejected_shapes_unsound.

(* every cached function of the source is decorated by an accepted wrapper or by functools' cache (C13_transparent_any_eviction) *)
Theorem C13_wiring_known : forallb (known_decorator CachingGen.caching_wrappers) CachingGen.wired_functions = true.
Proof. exact CachingGen.wiring_known. Qed.
Print Assumptions C13_wiring_known.
